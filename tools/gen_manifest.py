#!/usr/bin/env python3
"""Regenerates /verif/MANIFEST.json from the per-property decisions of DESIGN.md §4.

The manifest is generated (not hand-edited) so that the not_applicable list can never
drift from the list of property ids in properties.jsonl.
"""
import json
import os

HERE = os.path.dirname(os.path.dirname(os.path.abspath(__file__)))

NA = {
    "C01": "pure per-mode arithmetic of constructor arguments and the input spectrum; dt is a constructor parameter baked into exp(dt*L), not a clock the code reads; 'histories' are n-fold application of a pure map, so no schedule, clock jump or fault can land between or inside steps",
    "C02": "a numerical-analysis identity between coefficient arrays fixed at construction and the phi-functions; no schedule, clock or fault can change a coefficient, and the suspected .real defect is a question about complex arithmetic of one call",
    "C03": "pure function of the input spectrum and static dealiasing masks; decided by comparison with a fine-grid oracle over inputs, not by exploring executions",
    "C04": "pure array construction and FFT conventions; exhaustive enumeration over modes is input enumeration, with no execution nondeterminism to control",
    "C05": "pure Fourier multipliers applied to the input; nothing is scheduled, timed or stored",
    "C06": "equality between program transformations (jit/vmap/scan) of a pure function; the only shared state (JAX's jit cache) is outside the repo and keyed on static fields of frozen modules; vmap-lane isolation is data flow of one XLA program, not a schedule anyone controls",
    "C07": "derivatives of a pure function versus finite differences; no execution nondeterminism is involved",
    "C08": "metamorphic relation between two evaluations of a pure function on transformed inputs",
    "C09": "an algebraic identity of one pure call (zero k=0 multiplier, telescoping ETDRK weights) for all states; nothing is in flight for a crash, lost message or torn write to lose or duplicate",
    "C10": "an invariant of an iterated pure map (projection idempotence, divergence-free range); every trajectory is fixed by its initial state, so there are no alternative executions to search",
    "C11": "a per-call norm inequality of a pure linear map, iterated; 'unconditional stability' is a statement about all dt arguments, not about timing",
    "C12": "the injected field is a constant array fixed at construction and the laminar solution a closed form of the arguments; no schedule or fault participates",
    "C13": "differential equality between differently-parameterised constructions of the same pure map; conversions are scalar arithmetic",
    "C14": "the 'history' is a lax.scan over immutable arrays inside one pure call; no transport, consumer, concurrency or durable state exists for ordering / exactly-once / crash-recovery faults to act on; comparing with the loop model over generated arguments is stateless property-based testing, not simulation",
    "C15": "pure evaluation of a trigonometric interpolant and spectral zero-padding/truncation of the input",
    "C16": "pure scalar functionals of a pair of arrays; metric axioms and Parseval are identities over inputs",
    "C17": "pure binning of |fft(u)| by static wavenumber masks; enumeration over modes is input enumeration",
    "C18": "the contract is statistical/shape properties of a pure function of (options, N, key); the single nondeterminism clause ('deterministic function of the key') is re-established by the premise audit as a by-product, and claiming C18 on that clause alone would misreport the rest of the property as examined",
    "C19": "finiteness and dtype are functions of constructor arguments and of a process-wide JAX flag that the property itself fixes per session; a mid-session flip is outside the statement, everything else is input",
    "C20": "argument validation on static shapes/options before any computation; invalid arguments are inputs, not injected faults, and there is no partial state for a failure to corrupt",
}

BASELINE_OFF = (
    "cd /repo && env -u EXPONAX_VERIF /venv/bin/python -m pytest -ra -q -p no:cacheprovider "
    "--timeout=900 --continue-on-collection-errors"
)


def main():
    ids = [json.loads(l)["id"] for l in open(os.path.join(HERE, "properties.jsonl")) if l.strip()]
    assert sorted(ids) == sorted(NA), (ids, sorted(NA))
    manifest = {
        "version": 1,
        "setup_cmd": "cd /verif && /venv/bin/python -c \"import exponax, hypothesis; assert exponax.__file__.startswith('/repo/'), exponax.__file__; print('setup ok', exponax.__file__)\"",
        "hooks": {
            "guard": "EXPONAX_VERIF",
            "enable": "none: the guard name is reserved but unused; no hook was added to /repo because no property has a schedule/clock/fault seam (DESIGN.md §0, §3)",
            "baseline_off_cmd": BASELINE_OFF,
            "source_commits": [],
            "add_only": True,
        },
        "engines": [
            {
                "name": "premise-audit",
                "path": "audit/premise_audit.py",
                "serves_properties": [],
                "kind_free_text": (
                    "NOT a property check. Re-establishes, against /repo's current working tree, the premise on which "
                    "every not_applicable verdict rests: exponax has no schedule/clock/I-O/entropy/shared-state surface. "
                    "Three legs: static AST audit; dynamic seam traps around a workload enumerated from __all__; "
                    "deterministic-simulation replay (seeded op order, seeded baton-passed caller-thread interleavings, "
                    "perturbed ambient state) with bitwise digest comparison against an isolated reference. "
                    "Prints PREMISE-HOLDS (exit 0) or PREMISE-CHANGED <what> (exit 3); never prints VIOLATION."
                ),
            }
        ],
        "checks": [],
        "not_applicable": [{"property_id": i, "reason": NA[i]} for i in ids],
        "notes": (
            "Technique family fixed by the brief: deterministic simulation with fault injection. All 20 properties are "
            "pure functions of explicit arguments in a library with no threads, clocks, I/O, callbacks, caches or hidden "
            "entropy (DESIGN.md §2-§4), so no property is claimed. audit/premise_audit.py re-checks that premise on the "
            "current tree; DESIGN.md §7 lists the repository changes that would make individual properties decidable by "
            "this family."
        ),
    }
    with open(os.path.join(HERE, "MANIFEST.json"), "w") as f:
        json.dump(manifest, f, indent=1)
        f.write("\n")
    print("wrote MANIFEST.json with", len(manifest["checks"]), "checks and", len(ids), "not_applicable")


if __name__ == "__main__":
    main()
