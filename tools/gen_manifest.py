#!/usr/bin/env python3
"""Regenerates /verif/MANIFEST.json from the per-property decisions of DESIGN.md §4.

The manifest is generated (not hand-edited) so that the not_applicable list can never
drift from the list of property ids in properties.jsonl.
"""
import json
import os

HERE = os.path.dirname(os.path.dirname(os.path.abspath(__file__)))

NA = {
    "C01": "pure per-mode arithmetic of constructor arguments and the input spectrum; dt is a constructor parameter baked into exp(dt*L), not a clock the code reads; 'histories' are n-fold application of a pure map, so no schedule, clock jump or fault can land between or inside steps",
    "C02": "a numerical-analysis identity between coefficient arrays fixed at construction and the phi-functions; no schedule, clock or fault can change a coefficient, and the suspected .real defect is a question about complex arithmetic of one call",
    "C03": "pure function of the input spectrum and static dealiasing masks; decided by comparison with a fine-grid oracle over inputs, not by exploring executions",
    "C04": "pure array construction and FFT conventions; exhaustive enumeration over modes is input enumeration, with no execution nondeterminism to control",
    "C05": "pure Fourier multipliers applied to the input; nothing is scheduled, timed or stored",
    "C06": "equality between program transformations (jit/vmap/scan) of a pure function; the only shared state (JAX's jit cache) is outside the repo and keyed on static fields of frozen modules; vmap-lane isolation is data flow of one XLA program, not a schedule anyone controls",
    "C07": "derivatives of a pure function versus finite differences; no execution nondeterminism is involved",
    "C08": "metamorphic relation between two evaluations of a pure function on transformed inputs",
    "C09": "an algebraic identity of one pure call (zero k=0 multiplier, telescoping ETDRK weights) for all states; nothing is in flight for a crash, lost message or torn write to lose or duplicate",
    "C10": "an invariant of an iterated pure map (projection idempotence, divergence-free range); every trajectory is fixed by its initial state, so there are no alternative executions to search",
    "C11": "a per-call norm inequality of a pure linear map, iterated; 'unconditional stability' is a statement about all dt arguments, not about timing",
    "C12": "the injected field is a constant array fixed at construction and the laminar solution a closed form of the arguments; no schedule or fault participates",
    "C13": "differential equality between differently-parameterised constructions of the same pure map; conversions are scalar arithmetic",
    "C14": "the 'history' is a lax.scan over immutable arrays inside one pure call; no transport, consumer, concurrency or durable state exists for ordering / exactly-once / crash-recovery faults to act on; comparing with the loop model over generated arguments is stateless property-based testing, not simulation",
    "C15": "pure evaluation of a trigonometric interpolant and spectral zero-padding/truncation of the input",
    "C16": "pure scalar functionals of a pair of arrays; metric axioms and Parseval are identities over inputs",
    "C17": "pure binning of |fft(u)| by static wavenumber masks; enumeration over modes is input enumeration",
    "C18": "the contract is statistical/shape properties of a pure function of (options, N, key); the single nondeterminism clause ('deterministic function of the key') is re-established by the premise audit as a by-product, and claiming C18 on that clause alone would misreport the rest of the property as examined",
    "C19": "finiteness and dtype are functions of constructor arguments and of a process-wide JAX flag that the property itself fixes per session; a mid-session flip is outside the statement, everything else is input",
    "C20": "argument validation on static shapes/options before any computation; invalid arguments are inputs, not injected faults, and there is no partial state for a failure to corrupt",
}

BASELINE_OFF = (
    "cd /repo && env -u EXPONAX_VERIF /venv/bin/python -m pytest -ra -q -p no:cacheprovider "
    "--timeout=900 --continue-on-collection-errors"
)


CLAIMED = {
    "C01": dict(
        text="Seeded exploration (deterministic simulation): every linear stepper class, in every program form of the workload (construct, eager, jit, vmap, rollout, RepeatedStepper, grad, jvp, construct-inside-jit, one object shared by all callers), is executed inside simulated runs -- 1-4 baton-passed caller threads pre-empted at source lines of exponax, seeded operation histories, ambient faults (clock jumps, global-RNG reseeds, gc, allocation churn, JAX/equinox cache eviction, precision-session switches, injected crashes with retry) -- and every completed call must equal, to rounding, the same call evaluated alone in a fresh interpreter. C01 demands the exact solution to rounding for every call, so two different answers for identical arguments violate it. This is the part of C01 that can depend on a schedule, history or fault; the comparison with the analytic solution over all inputs is outside this family and not examined.",
        note="Decides only history / interleaving / crash / ambient-state independence of the linear steppers (a necessary condition of C01). Trusted: JAX, XLA:CPU, equinox, CPython; jit-compiled calls are scheduling-atomic; fixed closed-form input states (no input search).",
    ),
    "C06": dict(
        text="Seeded exploration (deterministic simulation) over the program forms C06 names -- eager, filter_jit, vmap over states, rollout (scan), filter_vmap over constructor parameters, steppers constructed inside a jit-compiled rollout, RepeatedStepper, one stepper object shared by concurrent callers -- for all stepper classes: in every simulated history/interleaving/fault plan each program must return what the same program returns alone in a fresh interpreter (to rounding), so that 'compiling or mapping gives the same numbers' cannot depend on what was compiled, traced or constructed before or concurrently. The cross-form numerical comparison (jit vs eager etc.) over all inputs is outside this family and not examined.",
        note="Decides order-of-compilation / trace-leak / cross-caller isolation of the program forms (a necessary condition of C06), not the equality between forms. Quick tier samples 28 of ~100 configurations per VERIF_SEED; thorough uses all. Trusted: JAX, XLA:CPU, equinox.",
    ),
    "C14": dict(
        text="Seeded exploration (deterministic simulation) of rollout, repeat (with and without per-step auxiliary inputs), stack_sub_trajectories, RepeatedStepper, ForcedStepper and build_ic_set: under simulated caller threads, histories and faults every call must return what it returns alone (to rounding), i.e. the utilities and wrappers hold no state between or across calls -- the part of 'equal the naive loop' that a history, a concurrent caller or an abandoned call could break. Equality with the naive loop over all n / flag combinations is outside this family and not examined.",
        note="Decides statelessness / re-entrancy of the trajectory utilities and wrapper steppers (a necessary condition of C14). Trusted: JAX, XLA:CPU, equinox.",
    ),
    "C18": dict(
        text="Seeded exploration (deterministic simulation) of every public IC generator and wrapper (two keys, 1-3 dimensions, pairs of configurations that differ in one option only): decides the clause 'is a deterministic function of the key' in the strong sense -- the array returned for (options, N, key) is the same to rounding whatever ran before, whatever other caller thread interleaves at source-line granularity inside exponax, whatever draw was abandoned by an injected crash and retried, and whatever clocks, global RNGs, caches, gc and the precision session did. The statistical and shape clauses of C18 (zero mean, unit std, offsets, band limits, ...) are functions of the input and are not examined by this family.",
        note="Decides the determinism clause of C18 only. Trusted: JAX's PRNG, XLA:CPU, equinox. A hidden entropy/clock source is additionally attributed by the seam traps (evidence: ambient_seam_hits_from_package_code).",
    ),
    "C19": dict(
        text="Seeded exploration (deterministic simulation) with the precision session as simulated ambient state: jax_enable_x64 is switched at operation boundaries ('float64 once x64 is enabled'), among the other faults, while coefficients are constructed and steps taken (construct, eager, construct-inside-jit, grad forms of every stepper class; the ETDRK integrators directly). Every operation builds its objects after the switch and must return exactly the dtype and, to rounding of that dtype, the values of the same operation in a fresh session of that precision -- so nothing computed in an earlier session may leak into a later one ('never silently fall back to another precision'). Finiteness at extreme stiffness and the single-vs-double agreement bound are input-quantified and not examined.",
        note="Decides session-faithfulness of dtype and precision across switches and histories (a necessary condition of C19). Trusted: JAX's handling of jax_enable_x64 (jit caches are keyed on it), XLA:CPU.",
    ),
}


def main():
    ids = [json.loads(l)["id"] for l in open(os.path.join(HERE, "properties.jsonl")) if l.strip()]
    assert sorted(ids) == sorted(NA), (ids, sorted(NA))
    checks = []
    for pid in ids:
        if pid not in CLAIMED:
            continue
        c = CLAIMED[pid]
        checks.append(
            {
                "property_id": pid,
                "quick_cmd": f"/venv/bin/python checks/run.py --property {pid} --tier quick",
                "thorough_cmd": f"/venv/bin/python checks/run.py --property {pid} --tier thorough",
                "evidence_file": f"/verif/evidence/{pid}.json",
                "replay_cmd_template": f"/venv/bin/python checks/run.py --property {pid} --replay {{path}}",
                "engine": "exponax-dst",
                "level_claimed": {"category": "exploration", "text": c["text"], "design_ref": "DESIGN.md §4, §6"},
                "level_note": c["note"],
                "technique": "deterministic simulation with fault injection: seeded baton-passing scheduler over real caller threads with source-line pre-emption, seeded API histories, ambient fault injection (clock, global RNGs, gc, cache eviction, precision-session switches) and injected crashes with retry; crash points and single pre-emption points additionally enumerated over executed source lines; oracle = isolated fresh-interpreter reference; seed + minimised schedule as replay file",
            }
        )
    manifest = {
        "version": 1,
        "setup_cmd": "cd /verif && /venv/bin/python -c \"import exponax, hypothesis; assert exponax.__file__.startswith('/repo/'), exponax.__file__; print('setup ok', exponax.__file__)\"",
        "hooks": {
            "guard": "EXPONAX_VERIF",
            "enable": "none needed: the guard name is reserved but unused. All seams are taken from outside the repository (sys.monitoring LINE events on exponax code objects, monkeypatched time/random/os/... entry points, PYTHONPATH pointing at /repo); no hook was added to /repo",
            "baseline_off_cmd": BASELINE_OFF,
            "source_commits": [],
            "add_only": True,
        },
        "engines": [
            {
                "name": "exponax-dst",
                "path": "audit/engine.py",
                "serves_properties": sorted(CLAIMED),
                "kind_free_text": "Deterministic simulator (audit/sim.py: seeded baton-passing scheduler over real caller threads, sys.monitoring line-level pre-emption inside exponax, ambient fault injection, injected crashes with retry), ambient seam traps (audit/seams.py), operation catalogue enumerated from __all__ (audit/workload.py), isolated fresh-interpreter references, ddmin minimiser and replay files (audit/engine.py); checks/run.py selects the operations a property is anchored in.",
            },
            {
                "name": "premise-audit",
                "path": "audit/premise_audit.py",
                "serves_properties": [],
                "kind_free_text": "NOT a property check. Runs the same engine over the whole public API with a bitwise oracle, plus a static AST audit and seam-hit attribution, to re-establish on the current tree the premise behind every not_applicable verdict (no schedule/clock/I-O/entropy/shared-state surface). Prints PREMISE-HOLDS (exit 0) or PREMISE-CHANGED <what> (exit 3); never prints VIOLATION.",
            },
        ],
        "checks": checks,
        "not_applicable": [{"property_id": i, "reason": NA[i]} for i in ids if i not in CLAIMED],
        "notes": (
            "Technique family fixed by the brief: deterministic simulation with fault injection. exponax is a library of pure functions "
            "(DESIGN.md §2), so the family can decide, for any property, only its history / interleaving / crash / ambient-state "
            "independence. That corollary is claimed for the five properties whose wording is about calls, programs, sessions or histories "
            "(C01, C06, C14, C18, C19) and for which independently seeded changes needed exactly such a schedule or fault to manifest "
            "(DESIGN.md §10); the other fifteen are not_applicable. audit/premise_audit.py re-checks the premise on the whole API."
        ),
    }
    with open(os.path.join(HERE, "MANIFEST.json"), "w") as f:
        json.dump(manifest, f, indent=1)
        f.write("\n")
    print("wrote MANIFEST.json with", len(manifest["checks"]), "checks and", len(manifest["not_applicable"]), "not_applicable")


if __name__ == "__main__":
    main()
