#!/usr/bin/env python3
"""Regenerates /verif/MANIFEST.json from the per-property decisions of DESIGN.md §4.

The manifest is generated (not hand-edited) so that the not_applicable list can never
drift from the list of property ids in properties.jsonl.
"""
import json
import os

HERE = os.path.dirname(os.path.dirname(os.path.abspath(__file__)))

NA = {
    "C01": "pure per-mode arithmetic of constructor arguments and the input spectrum; dt is a constructor parameter baked into exp(dt*L), not a clock the code reads; 'histories' are n-fold application of a pure map, so no schedule, clock jump or fault can land between or inside steps",
    "C02": "a numerical-analysis identity between coefficient arrays fixed at construction and the phi-functions; no schedule, clock or fault can change a coefficient, and the suspected .real defect is a question about complex arithmetic of one call",
    "C03": "pure function of the input spectrum and static dealiasing masks; decided by comparison with a fine-grid oracle over inputs, not by exploring executions",
    "C04": "pure array construction and FFT conventions; exhaustive enumeration over modes is input enumeration, with no execution nondeterminism to control",
    "C05": "pure Fourier multipliers applied to the input; nothing is scheduled, timed or stored",
    "C06": "equality between program transformations (jit/vmap/scan) of a pure function; the only shared state (JAX's jit cache) is outside the repo and keyed on static fields of frozen modules; vmap-lane isolation is data flow of one XLA program, not a schedule anyone controls",
    "C07": "derivatives of a pure function versus finite differences; no execution nondeterminism is involved",
    "C08": "metamorphic relation between two evaluations of a pure function on transformed inputs",
    "C09": "an algebraic identity of one pure call (zero k=0 multiplier, telescoping ETDRK weights) for all states; nothing is in flight for a crash, lost message or torn write to lose or duplicate, and -- unlike the 'returns the exact X' properties -- a history-dependent result need not break conservation, so not even the determinacy corollary this family decides is implied",
    "C10": "an invariant of an iterated pure map (projection idempotence, divergence-free range); every trajectory is fixed by its initial state, so there are no alternative executions to search, and a history-dependent step could still be divergence-free, so the determinacy corollary is not implied",
    "C11": "a per-call norm inequality of a pure linear map, iterated; 'unconditional stability' is a statement about all dt arguments, not about timing, and a history-dependent step could still be non-amplifying, so the determinacy corollary is not implied",
    "C12": "the injected field is a constant array fixed at construction and the laminar solution a closed form of the arguments; no schedule or fault participates",
    "C13": "differential equality between differently-parameterised constructions of the same pure map; conversions are scalar arithmetic",
    "C14": "the 'history' is a lax.scan over immutable arrays inside one pure call; no transport, consumer, concurrency or durable state exists for ordering / exactly-once / crash-recovery faults to act on; comparing with the loop model over generated arguments is stateless property-based testing, not simulation",
    "C15": "pure evaluation of a trigonometric interpolant and spectral zero-padding/truncation of the input",
    "C16": "pure scalar functionals of a pair of arrays; metric axioms and Parseval are identities over inputs",
    "C17": "pure binning of |fft(u)| by static wavenumber masks; enumeration over modes is input enumeration",
    "C18": "the contract is statistical/shape properties of a pure function of (options, N, key); the single nondeterminism clause ('deterministic function of the key') is re-established by the premise audit as a by-product, and claiming C18 on that clause alone would misreport the rest of the property as examined",
    "C19": "finiteness and dtype are functions of constructor arguments and of a process-wide JAX flag that the property itself fixes per session; a mid-session flip is outside the statement, everything else is input",
    "C20": "argument validation on static shapes/options before any computation; invalid arguments are inputs, not injected faults, and there is no partial state for a failure to corrupt",
}

BASELINE_OFF = (
    "cd /repo && env -u EXPONAX_VERIF /venv/bin/python -m pytest -ra -q -p no:cacheprovider "
    "--timeout=900 --continue-on-collection-errors"
)


COMMON = 'In every simulated run -- 1-4 baton-passed caller threads pre-empted at source lines of exponax, seeded operation histories, ambient faults (clock jumps, global-RNG reseeds, gc, allocation churn, JAX/equinox cache eviction, precision-session switches), injected crashes with retry, plus crash points and single pre-emption points enumerated over the executed source lines -- every completed call must equal, to rounding, the same call evaluated alone in a fresh interpreter.'

TRUSTED = "Trusted: JAX, XLA:CPU, equinox, CPython; jit-compiled calls are scheduling-atomic; fixed closed-form inputs and literal keys (no input search)."


MODEL_COMMON = (
    "Second oracle (reference models, audit/models.py): the operations below evaluate an API program next to the small executable model "
    "the property names for it and must agree with it to rounding -- first in the empty history (one operation in a fresh interpreter), "
    "then again inside every simulated history; a disagreement in the empty history is reported with a one-operation replay file. "
    "Inputs are fixed closed-form arrays: the relations decide the property for the catalogue's programs, configurations and operation "
    "sequences, not over all inputs. Models: "
)

MODELS = {
    "C01": "an independent numpy implementation of exp(symbol(k) dt) for Advection, Diffusion (scalar, diagonal, full matrix), AdvectionDiffusion, Dispersion, HyperDiffusion and GeneralLinearStepper on band-limited states that excite the highest retained mode of every axis (1-3 D, odd and even N, dt = 0.05 and 7); 4 calls with dt = one call with 4 dt for every linear class; a call with -dt undoes a call with dt for Advection, Dispersion, Wave.",
    "C02": "observed convergence order of ETDRK1-4 under dt-halving against an independent integrating-factor RK4 of the same semi-discrete system, for a real, two complex and a purely imaginary linear symbol; ETDRK0 = exp(L dt); successive refinements of the KdV, Burgers and generic convection steppers contract like 2^p (float64 session).",
    "C03": "the 1D convection (both forms), gradient-norm, general and cubic polynomial terms on a band-truncated broadband state vs the same term evaluated on a grid twice as fine (which cannot alias), coefficient by coefficient on the retained band, and zero outside it (N = 12, 15, 16, 18, 24; 2/3 rule, 1/2 for the cubic).",
    "C04": "ifft(fft(u)) = u; make_grid = j L / N; for both indexing options wavenumbers and transforms have matching shapes.",
    "C05": "derivative of orders 1-3 of sin(k.x) with the highest retained mode vs the analytic partial derivatives; Poisson solution vs the analytic zero-mean solution; two domain extents.",
    "C06": "filter_jit / jit(lambda) / vmap / rollout / jit(rollout) / vmap(rollout) vs rollout(vmap) against eager one-at-a-time evaluation for fourteen stepper classes; batches of steppers built with filter_vmap over a parameter (Burgers, KS, FisherKPP incl. 0, AllenCahn incl. 0, KdV incl. 0) vs steppers built one at a time; stacked RepeatedSteppers under filter_vmap / filter_jit, also after tree_at of the inner steppers.",
    "C07": "forward-mode derivatives w.r.t. diffusivity (also at 0), convection scale, dt, reaction rate (also at 0), zeroth-order linear coefficient (also at 0), velocity, dispersivity, generic coefficients and the state (also through rollouts), orders 1-4, vs central finite differences; reverse mode vs forward mode (adjoint identity); Jacobian of a linear stepper = the stepper (float64 session).",
    "C08": "step of the translated state = translated step (six steppers, 1-3 D, whole-cell shifts on every axis); step of the axis-permuted state = permuted step (five isotropic steppers, velocity channels permuted with the axes, odd grids for odd-order terms); 2D stepper on a state constant along one axis = the 1D stepper.",
    "C09": "spatial mean after each of four successive steps vs the initial mean for Advection, Diffusion, Dispersion, HyperDiffusion, Burgers (conservative, 1D, single-channel), KdV, conservative KS, Cahn-Hilliard, 2D vorticity and 3D velocity Navier-Stokes (orders 1, 2, 4; N = 16, 15, 12 / 8, 9, 12 / 6); work <u, N(u)> = 0 of the 1D convection term (both forms; N = 12, 15, 16, 18, 24) and energy / enstrophy production = 0 of the 2D vorticity convection on band-truncated states; spatially constant equilibria are fixed points.",
    "C10": "spectral divergence of make_incompressible(v) and Leray(v) = 0, both idempotent, both agree (2-3 D, odd and even N, states with the highest retained modes); the 3D Navier-Stokes and Kolmogorov velocity steppers keep a solenoidal state solenoidal over three successive steps (orders 1, 2, 4).",
    "C11": "L2 norm after each of three successive steps <= norm before, for Advection, Diffusion, AdvectionDiffusion, Dispersion, HyperDiffusion and a generic dissipative-dispersive stepper on broadband states with Nyquist content, dt = 0.05, 3, 400, 1-3 D; = on odd grids for Advection and Dispersion.",
    "C12": "from rest, n steps of the 2D vorticity and 3D velocity Kolmogorov steppers vs the laminar solution f (exp(sigma t) - 1) / sigma of the documented forced equation (L = 2 pi, 3, 1; odd and even N; several k, gamma; orders 1-4); ForcedStepper(u, f) = step(u + dt f); zero forcing = unforced stepper.",
    "C13": "GeneralLinearStepper = NormalizedLinearStepper(alpha_j = a_j dt / L^j) = DifficultyLinearStepper(reduced); the same for the convection family; another (L, dt, a) with the same non-dimensional groups; AdvectionDiffusion / Burgers / Diffusion / Dispersion / HyperDiffusion = the generic stepper with the equivalent coefficient list; normalize/denormalize and reduce/extract are mutual inverses and follow alpha_j = a_j dt / L^j.",
    "C14": "rollout (n = 0, 1, 2, 5; with and without initial state; constant and per-step aux; pytree state with pytree aux) and repeat vs the naive Python loop; stack_sub_trajectories vs explicit windows (arrays and pytrees); RepeatedStepper(s, n) vs n applications and dt = n dt (n = 1, 2, 3; four inner steppers); nested RepeatedSteppers, also inside ForcedStepper and rollout; RepeatedStepper after tree_at of the inner stepper / of num_sub_steps, serialise-deserialise through an in-memory file, flatten-unflatten, partition-combine, filter_jit -- vs n applications of its current inner stepper.",
    "C15": "map_between_resolutions of a band-limited state vs the same function sampled on the finer grid; up-then-down = identity; the mean is preserved by every resolution change; FourierInterpolator reproduces the state at its own grid points.",
    "C16": "Parseval (fourier_* = spatial metric), zero for identical inputs, symmetry, L^D scaling, additivity over channels and over disjoint bands, homogeneity, scale-freeness of nRMSE, correlation = +-1 for proportional fields.",
    "C17": "amplitude spectrum of a cos(k.x): amplitude a in bin round(|k|), zero elsewhere (1-3 D, odd and even N, highest retained mode, mixed signs); 1D Parseval of the summed power spectrum; channels independent.",
    "C18": "shape (1, N, ..., N), finiteness, same key twice, zero mean, unit std, unit maximum, scale factor, clamping limits reached, mean inside the requested offset range, Fourier content confined to the cutoff, one channel per sub-generator, function form = sampled form (eleven generator configurations, two keys, 1-3 D).",
    "C19": "ETDRK1-4 coefficients and steps are finite for real and complex symbols with Re(lambda dt) <= 0 from 0 up to |lambda dt| = 1e15; results and stored arrays of seven steppers carry the session's precision; the zero state maps to a finite state (zero for unforced steppers).",
    "C20": "for four stepper classes, a correctly shaped state is accepted (same shape, same values) and four malformed states (extra channel, batch axis, missing channel axis, wrong points per axis) raise ValueError after each of: nothing, tree_map, tree_at, partition-combine, flatten-unflatten, filter_jit, RepeatedStepper with 1 and 3 sub-steps, a rebuilt RepeatedStepper, vmap; every rejection operation of the catalogue must raise ValueError in the empty history too.",
}


def claim(scope, implied, not_examined, note):
    return dict(
        text=f"Seeded exploration (deterministic simulation) of {scope}. {COMMON} {implied} Not examined by this technique family: {not_examined}",
        note=f"{note} {TRUSTED}",
    )


def invariant_claim(what):
    return dict(
        text=f"Seeded exploration (deterministic simulation) with an invariant oracle: {what} {COMMON} Unlike the other properties this one does not imply determinacy, so the comparison with the isolated reference is used here only to notice that a history changed something; a violation is reported only when the invariant itself fails (ModelMismatch), in the empty history or in a simulated one. Not examined: the invariant over all states, orders, dt and resolutions (inputs).",
        note=f"Decides the invariant on the catalogue's fixed states and configurations, in the empty history and under histories / interleavings / abandoned calls / session switches. {TRUSTED}",
    )


CLAIMED = {
    "C01": claim(
        "every linear stepper class in every program form of the workload (construct, eager, jit, vmap, rollout, RepeatedStepper, grad, jvp, construct-inside-jit, one object shared by all callers) and its one-option twins (dt, L, coefficient)",
        "C01 demands the exact solution to rounding for every call (and speaks about sequences of calls), so two different answers for identical arguments violate it.",
        "the comparison with the analytic solution and the semigroup identity over all inputs.",
        "Decides only history / interleaving / crash / ambient-state independence of the linear steppers (a necessary condition of C01).",
    ),
    "C02": claim(
        "the ETDRK integrators of order 0-4 called directly (two dt, two contour resolutions) and constructed through every nonlinear stepper class (orders 1-4 via option twins)",
        "C02 equates the coefficients and the step with the order-p scheme; coefficients or steps that differ between two executions with identical arguments cannot both do so.",
        "the agreement of the coefficients with the phi-functions, the stage formulas and the phi-function coefficients and stage formulas one by one (the convergence-order model below decides the scheme's order, and found the `.real` defect that commit d3c97cf repairs).",
        "Decides only that coefficient construction and stepping are free of history / interleaving / crash / session dependence (a necessary condition of C02).",
    ),
    "C03": claim(
        "every nonlinear-function class called directly (two dealiasing fractions on the same grid, two resolutions, 1-3 dimensions) and one step of every nonlinear stepper",
        "C03 equates the nonlinear term with the alias-free projection of the documented operator; a term that depends on what was built before or concurrently (e.g. a stale dealiasing mask) is not that projection.",
        "the comparison with a fine-grid oracle over inputs, all N mod 12, all dealiasing fractions.",
        "Decides only history / interleaving / crash independence of the nonlinear functions (a necessary condition of C03).",
    ),
    "C04": claim(
        "make_grid (all flags, both indexings), wavenumber arrays, FFT pairs, scaling arrays, filter masks and Fourier-coefficient extraction, for three domain extents and two resolutions per dimension",
        "C04 states these conventions as identities; an array that depends on what was requested before cannot satisfy them for every call.",
        "the mutual consistency of the conventions themselves, mode by mode (input enumeration).",
        "Decides only determinacy of the grid / FFT helpers under histories, interleavings, crashes and session switches (a necessary condition of C04).",
    ),
    "C05": claim(
        "derivative and Laplace operators, `derivative` of orders 1-3, the Poisson solver (orders 2 and 4) and the incompressibility projection, for three domain extents and two resolutions per dimension",
        "C05 demands exact results on band-limited fields for every call; results that depend on an earlier call with another extent, order or resolution are not exact.",
        "exactness on trigonometric polynomials over inputs.",
        "Decides only determinacy of the spectral operators (a necessary condition of C05).",
    ),
    "C06": claim(
        "the program forms C06 names -- eager, filter_jit, vmap over states, rollout (scan), filter_vmap over a constructor parameter, a stepper constructed inside a jit-compiled rollout, RepeatedStepper, one stepper object called by several simulated callers -- for every stepper class",
        "'Compiling or mapping gives the same numbers' cannot depend on what was traced, compiled or constructed before or concurrently (stale or leaked trace artefacts, first-use effects, cross-caller leakage).",
        "the numerical equality between the forms over all inputs (translation validation / differential testing).",
        "Decides order-of-compilation / trace-leak / cross-caller isolation of the program forms (a necessary condition of C06). Quick tier samples 16 of ~140 configurations per VERIF_SEED; thorough uses all.",
    ),
    "C07": claim(
        "the gradient (of a squared-norm loss through one step) and JVP programs of every stepper class",
        "C07 demands correct derivatives for every call; a derivative that depends on the history of the process is not the derivative of the step.",
        "the comparison with finite differences, cotangent/tangent consistency, derivatives w.r.t. coefficients, rollout length (inputs / programs).",
        "Decides only determinacy of the derivative programs (a necessary condition of C07).",
    ),
    "C08": claim(
        "one step of every stepper class and of its option twins in 1-3 dimensions, including one object shared by all callers",
        "The commutation f(Tu) = T f(u) relates two evaluations; if the same evaluation can return two different results, it fails for one of them.",
        "the symmetry relations themselves (shifts, axis permutations, embeddings) -- metamorphic testing over inputs.",
        "Decides only determinacy of a step (a necessary condition of C08; the same corollary as for C06, on the eager form).",
    ),
    "C09": invariant_claim("after every completed step of a history of steps the conserved quantity is compared with its initial value."),
    "C10": invariant_claim("after every completed projection or step the spectral divergence is compared with zero, and the projections with each other."),
    "C11": invariant_claim("after every completed step the L2 norm is compared with the norm before the step."),
    "C12": claim(
        "the Kolmogorov steppers and the generic vorticity stepper with injection (several forced modes and scales on the same grid), their forced nonlinear functions, and ForcedStepper with several forcings",
        "C12 says exactly the documented field is injected at every step; a forcing that depends on which stepper was built before or concurrently is another field.",
        "the value of the injected field against the documented formula and the laminar solution (decided by the second oracle below, which found the two injection defects that commits 0b35ac6 and ea21c86 repair).",
        "Decides only history / interleaving / crash independence of the forcing terms (a necessary condition of C12).",
    ),
    "C13": claim(
        "the generic, normalized and difficulty stepper families (with coefficient twins) and the normalize / denormalize / reduce / extract conversion functions",
        "'The same dynamics' across interfaces presupposes that each interface has one dynamics; a result that depends on which interface or extent was used before breaks the equality for some order of use.",
        "the differential equality between the interfaces and the conversion formulas over inputs.",
        "Decides only determinacy of each interface under histories, interleavings, crashes and session switches (a necessary condition of C13).",
    ),
    "C14": claim(
        "rollout (with/without init, constant and per-step aux, n = 0..5), repeat, stack_sub_trajectories (several window and trajectory lengths), RepeatedStepper, ForcedStepper (also as objects shared by all callers) and build_ic_set",
        "The naive loop has no state between or across calls, so a utility or wrapper that does cannot equal it for every history.",
        "equality with the loop over all n, flag combinations and pytree shapes (input enumeration).",
        "Decides statelessness / re-entrancy of the trajectory utilities and wrapper steppers (a necessary condition of C14).",
    ),
    "C15": claim(
        "map_between_resolutions (up and down, odd/even, parity collisions, both oddball settings) and FourierInterpolator (two extents, two resolutions) in 1-3 dimensions",
        "C15 demands exact resampling for every call; a result that depends on the previous resampling configuration is not exact.",
        "exactness for band-limited states over inputs.",
        "Decides only determinacy of the resampling utilities (a necessary condition of C15).",
    ),
    "C16": claim(
        "every exported metric, one call per operation, with several frequency bands and derivative orders on the same grid",
        "C16 defines each metric as a quadrature of a norm; a value that depends on which band or metric was evaluated before or concurrently is not that quadrature.",
        "metric axioms, Parseval, scaling with the domain extent (identities over inputs).",
        "Decides only determinacy of the metrics (a necessary condition of C16).",
    ),
    "C17": claim(
        "get_spectrum with power / amplitude, sum / average binning, two resolutions, 1-3 dimensions",
        "C17 fixes bin and weight of every mode; weights that depend on the previous call's options are not those weights.",
        "the binning and Parseval weights themselves, mode by mode (input enumeration).",
        "Decides only determinacy of the spectrum (a necessary condition of C17).",
    ),
    "C18": claim(
        "every public IC generator and wrapper (two keys, two resolutions, 1-3 dimensions), twins that differ in one option only, and function-form ICs and generator objects shared by all callers",
        "Decides the clause 'is a deterministic function of the key' in the strong sense: the array returned for (options, N, key) is the same whatever ran before, whatever other caller interleaves inside exponax, whatever draw was abandoned and retried, whatever clocks, global RNGs, caches and the precision session did.",
        "the statistical and shape clauses of C18 (zero mean, unit std, offsets, band limits, ...), which are functions of the input.",
        "Decides the determinism clause of C18 only. A hidden entropy / clock source is additionally attributed by the seam traps (evidence: ambient_seam_hits_from_package_code).",
    ),
    "C19": claim(
        "construct, eager, construct-inside-jit and grad forms of every stepper class and the ETDRK integrators, with the precision session owned by the simulator: jax_enable_x64 is switched at operation boundaries ('float64 once x64 is enabled') and the library must neither ignore nor change it",
        "Every operation builds its objects after the switch and must return exactly the dtype and, to rounding of that dtype, the values of a fresh session of that precision ('never silently fall back to another precision'); a session flag left changed by library code is reported as well.",
        "finiteness at extreme stiffness, the zero state, the single-vs-double agreement bound (inputs).",
        "Decides session-faithfulness of dtype and precision across switches, histories and abandoned calls (a necessary condition of C19). Trusted in addition: JAX keys its caches on jax_enable_x64.",
    ),
    "C20": claim(
        "malformed states (extra channel, wrong N, batch axis) offered to eleven stepper classes and to RepeatedStepper, unsupported dimensions and option combinations of constructors, interleaved with valid steps of the same classes",
        "C20 demands rejection for every such call; here the *reference* outcome is the exception, and an operation that is accepted (or rejected with another exception type) in some history violates it.",
        "the completeness of the validation over all wrong shapes and all documented restrictions (input enumeration).",
        "Decides only that rejection does not depend on history, interleaving, abandoned calls or session (a necessary condition of C20).",
    ),
}


def main():
    ids = [json.loads(l)["id"] for l in open(os.path.join(HERE, "properties.jsonl")) if l.strip()]
    assert sorted(ids) == sorted(NA), (ids, sorted(NA))
    checks = []
    for pid in ids:
        if pid not in CLAIMED:
            continue
        c = dict(CLAIMED[pid])
        if MODELS.get(pid):
            c["text"] = c["text"] + " " + MODEL_COMMON + MODELS[pid]
            c["text"] = c["text"].replace("Not examined by this technique family:", "Not examined by the first oracle:")
        checks.append(
            {
                "property_id": pid,
                "quick_cmd": f"/venv/bin/python checks/run.py --property {pid} --tier quick",
                "thorough_cmd": f"/venv/bin/python checks/run.py --property {pid} --tier thorough",
                "evidence_file": f"/verif/evidence/{pid}.json",
                "replay_cmd_template": f"/venv/bin/python checks/run.py --property {pid} --replay {{path}}",
                "engine": "exponax-dst",
                "level_claimed": {"category": "exploration", "text": c["text"], "design_ref": "DESIGN.md §4, §6"},
                "level_note": c["note"],
                "technique": "deterministic simulation with fault injection: seeded baton-passing scheduler over real caller threads with source-line pre-emption, seeded API histories, ambient fault injection (clock, global RNGs, gc, cache eviction, precision-session switches) and injected crashes with retry; crash points and single pre-emption points additionally enumerated over executed source lines; oracles = isolated fresh-interpreter reference of the same operation, and executable reference models named by the property (audit/models.py) evaluated in the empty history and in every simulated history; seed + minimised schedule (or the single operation) as replay file",
            }
        )
    manifest = {
        "version": 1,
        "setup_cmd": "cd /verif && /venv/bin/python -c \"import exponax, hypothesis; assert exponax.__file__.startswith('/repo/'), exponax.__file__; print('setup ok', exponax.__file__)\"",
        "hooks": {
            "guard": "EXPONAX_VERIF",
            "enable": "none needed: the guard name is reserved but unused. All seams are taken from outside the repository (sys.monitoring LINE events on exponax code objects, monkeypatched time/random/os/... entry points, PYTHONPATH pointing at /repo); no hook was added to /repo",
            "baseline_off_cmd": BASELINE_OFF,
            "source_commits": [],
            "add_only": True,
        },
        "engines": [
            {
                "name": "exponax-dst",
                "path": "audit/engine.py",
                "serves_properties": sorted(CLAIMED),
                "kind_free_text": "Deterministic simulator (audit/sim.py: seeded baton-passing scheduler over real caller threads, sys.monitoring line-level pre-emption inside exponax, ambient fault injection, injected crashes with retry), ambient seam traps (audit/seams.py), operation catalogue enumerated from __all__ (audit/workload.py), isolated fresh-interpreter references, ddmin minimiser and replay files (audit/engine.py); checks/run.py selects the operations a property is anchored in.",
            },
            {
                "name": "premise-audit",
                "path": "audit/premise_audit.py",
                "serves_properties": [],
                "kind_free_text": "NOT a property check. Runs the same engine over the whole public API with a bitwise oracle, plus a static AST audit and seam-hit attribution, to re-establish on the current tree the premise behind every not_applicable verdict (no schedule/clock/I-O/entropy/shared-state surface). Prints PREMISE-HOLDS (exit 0) or PREMISE-CHANGED <what> (exit 3); never prints VIOLATION.",
            },
        ],
        "checks": checks,
        "not_applicable": [{"property_id": i, "reason": NA[i]} for i in ids if i not in CLAIMED],
        "notes": (
            "Technique family fixed by the brief: deterministic simulation with fault injection. exponax is a library of pure functions "
            "(DESIGN.md §2), so the family can decide, for any property, only its history / interleaving / crash / ambient-state "
            "independence ('determinacy'). That corollary is claimed for the seventeen properties whose statement implies it (a call that must "
            "return 'the exact X to rounding' cannot return two different things for identical arguments), each check restricted to the API the "
            "property is anchored in; independently seeded changes that need a history, interleaving, abandoned call or session switch to manifest "
            "were produced for twelve of them and are caught (DESIGN.md §10). C09-C11 (invariants / inequalities) do not imply determinacy and are "
            "not_applicable. audit/premise_audit.py re-checks the no-shared-state premise on the whole API."
        ),
    }
    with open(os.path.join(HERE, "MANIFEST.json"), "w") as f:
        json.dump(manifest, f, indent=1)
        f.write("\n")
    print("wrote MANIFEST.json with", len(manifest["checks"]), "checks and", len(manifest["not_applicable"]), "not_applicable")


if __name__ == "__main__":
    main()
