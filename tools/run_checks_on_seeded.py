#!/usr/bin/env python3
"""Runs registered checks (and optionally the premise audit's static leg) against a seeded change.

    run_checks_on_seeded.py <seed-id> <prop> [<prop> ...] [--tier quick] [--seed N] [--in-repo]

Default: the patch is applied to a scratch worktree outside /repo and /verif and the checks are pointed at it
with --repo (safe while other jobs read /repo). With --in-repo the patch is applied to /repo itself
(`git -C /repo apply`), the checks run exactly as registered, and /repo is restored (`git checkout -- .`).
Results are merged into /verif/seeded/<seed-id>/meta.json under "detection".
"""
import json
import os
import shutil
import subprocess
import sys
import tempfile


def sh(cmd, **kw):
    return subprocess.run(cmd, capture_output=True, text=True, **kw)


def main():
    args = [a for a in sys.argv[1:] if not a.startswith("--")]
    seed_id, props = args[0], args[1:]
    tier = sys.argv[sys.argv.index("--tier") + 1] if "--tier" in sys.argv else "quick"
    vseed = sys.argv[sys.argv.index("--seed") + 1] if "--seed" in sys.argv else "0"
    in_repo = "--in-repo" in sys.argv
    dest = f"/verif/seeded/{seed_id}"
    patch = os.path.join(dest, "patch.diff")
    tmp = tempfile.mkdtemp(prefix="seeded-run-")
    detection = {}
    try:
        if in_repo:
            assert sh(["git", "-C", "/repo", "status", "--porcelain"]).stdout.strip() == "", "/repo not clean"
            r = sh(["git", "-C", "/repo", "apply", patch])
            assert r.returncode == 0, r.stderr
            repo = "/repo"
        else:
            repo = os.path.join(tmp, "wt")
            r = sh(["git", "-C", "/repo", "worktree", "add", "--detach", repo])
            assert r.returncode == 0, r.stderr
            r = sh(["git", "-C", repo, "apply", patch])
            if r.returncode != 0:
                # stored against the pinned commit and in conflict with the round-5 fix commits (S13, S19, S31, R01-R03):
                # use a worktree of the pinned commit instead (the reference models then also report the six repaired defects)
                sh(["git", "-C", "/repo", "worktree", "remove", "--force", repo])
                r = sh(["git", "-C", "/repo", "worktree", "add", "--detach", repo, "011963e"])
                assert r.returncode == 0, r.stderr
                r = sh(["git", "-C", repo, "apply", patch])
            assert r.returncode == 0, r.stderr
        env = dict(os.environ, VERIF_SEED=vseed)
        for prop in props:
            if prop == "static":
                p = sh(["/venv/bin/python", "/verif/audit/premise_audit.py", "--leg", "static", "--repo", repo, "--report", os.path.join(tmp, "static.json")], env=env)
                lines = [l[:300] for l in p.stdout.splitlines() if l.startswith("PREMISE-CHANGED")]
                detection["premise-audit-static"] = {"exit": p.returncode, "lines": lines}
                print("static", p.returncode, lines)
                continue
            cmd = ["/venv/bin/python", "/verif/checks/run.py", "--property", prop, "--tier", tier, "--no-evidence", "--repo", repo]
            p = sh(cmd, env=env, cwd="/verif")
            out = p.stdout.splitlines()
            vio = [l for l in out if l.startswith("VIOLATION")]
            rec = {"exit": p.returncode, "violation_lines": vio, "harness_notes": [l[:300] for l in out if l.startswith("HARNESS")][:6], "summary": next((l[:500] for l in out if l.startswith("check property")), ""), "tier": tier, "verif_seed": int(vseed), "how": "git -C /repo apply" if in_repo else "scratch worktree + --repo"}
            if vio:
                rp = vio[0].split("replay=")[1]
                rj = json.load(open(rp))
                rec["minimised_plan"] = rj["plan"]
                rec["original_plan_ops"] = rj["original_plan_ops"]
                rec["example_mismatch"] = (rj["expected"]["mismatches"] or [{}])[0]
                rec["reproduced_in_fresh_process"] = rj["reproduced_in_fresh_process"]
                rr = sh(["/venv/bin/python", "/verif/checks/run.py", "--property", prop, "--repo", repo, "--replay", rp], cwd="/verif")
                rec["replay_on_changed_tree"] = {"exit": rr.returncode, "last": rr.stdout.strip().splitlines()[-1:]}
                shutil.copy(rp, os.path.join(dest, f"replay-{prop}.json"))
            detection[prop] = rec
            print(prop, json.dumps(rec)[:1200])
    finally:
        if in_repo:
            sh(["git", "-C", "/repo", "checkout", "--", "."])
        else:
            sh(["git", "-C", "/repo", "worktree", "remove", "--force", os.path.join(tmp, "wt")])
        shutil.rmtree(tmp, ignore_errors=True)
    # replays written against the changed tree must also be clean on the unchanged tree
    for prop, rec in detection.items():
        if rec.get("violation_lines"):
            rp = os.path.join(dest, f"replay-{prop}.json")
            rr = sh(["/venv/bin/python", "/verif/checks/run.py", "--property", prop, "--replay", rp], cwd="/verif")
            rec["replay_on_unchanged_tree"] = {"exit": rr.returncode, "last": rr.stdout.strip().splitlines()[-1:]}
    mp = os.path.join(dest, "meta.json")
    meta = json.load(open(mp)) if os.path.exists(mp) else {}
    meta.setdefault("detection", {}).update(detection)
    with open(mp, "w") as f:
        json.dump(meta, f, indent=1)


if __name__ == "__main__":
    main()
