#!/usr/bin/env python3
"""Confirms a candidate seeded change before it is kept under /verif/seeded/<id>/.

    verify_seeded.py <seed-id> <property-id> <dir with patch.diff, demo.py, notes.md>

Creates its own scratch worktree of /repo under a temp dir, applies patch.diff and checks:
  1. the demonstration exits 0 on the unchanged tree (/repo) and non-zero on the changed tree;
  2. the complete existing test suite, unedited, still passes on the changed tree
     (every test of BASELINE.json:stable_pass passes);
  3. the demonstration's verdict does not depend on anything this technique family controls:
     it is re-run under different PYTHONHASHSEEDs, XLA thread-pool settings, CPU affinities and
     x64 sessions on both trees and must give the same verdict every time.
Writes /verif/seeded/<seed-id>/{patch.diff,demo.py,notes.md,meta.json} and removes the worktree.
"""
import json
import os
import shutil
import subprocess
import sys
import tempfile
import xml.etree.ElementTree as ET

PY = "/venv/bin/python"


def sh(cmd, env=None, cwd=None, timeout=3600):
    p = subprocess.run(cmd, env=env, cwd=cwd, capture_output=True, text=True, timeout=timeout)
    return p.returncode, p.stdout[-4000:], p.stderr[-2000:]


def env_for(tree, **extra):
    env = {k: v for k, v in os.environ.items() if k not in ("PYTHONHASHSEED", "XLA_FLAGS", "JAX_ENABLE_X64")}
    env["PYTHONPATH"] = tree
    env["JAX_PLATFORMS"] = "cpu"
    env["PYTHONDONTWRITEBYTECODE"] = "1"
    env.update(extra)
    return env


def main():
    seed_id, prop, src = sys.argv[1:4]
    skip_suite = "--skip-suite" in sys.argv
    dest = f"/verif/seeded/{seed_id}"
    os.makedirs(dest, exist_ok=True)
    for f in ("patch.diff", "demo.py", "notes.md"):
        if os.path.exists(os.path.join(src, f)) and os.path.realpath(os.path.join(src, f)) != os.path.realpath(os.path.join(dest, f)):
            shutil.copy(os.path.join(src, f), os.path.join(dest, f))
    tmp = tempfile.mkdtemp(prefix="seeded-verify-")
    wt = os.path.join(tmp, "wt")
    meta = {"seed_id": seed_id, "property": prop, "ran": []}
    try:
        rc, out, err = sh(["git", "-C", "/repo", "worktree", "add", "--detach", wt])
        assert rc == 0, err
        rc, out, err = sh(["git", "-C", wt, "apply", os.path.join(dest, "patch.diff")])
        assert rc == 0, "patch does not apply: " + err
        demo = os.path.join(dest, "demo.py")

        rc0, o0, e0 = sh([PY, demo], env=env_for("/repo"), cwd=tmp)
        rc1, o1, e1 = sh([PY, demo], env=env_for(wt), cwd=tmp)
        meta["demo_unchanged_exit"] = rc0
        meta["demo_changed_exit"] = rc1
        meta["demo_changed_output_tail"] = (o1 + e1)[-1500:]
        meta["ran"].append("PYTHONPATH=<tree> /venv/bin/python demo.py on /repo and on the patched worktree")
        ok_demo = rc0 == 0 and rc1 != 0

        # schedule / ambient-state independence of the verdict
        variants = [
            {"PYTHONHASHSEED": "0"},
            {"PYTHONHASHSEED": "12345", "XLA_FLAGS": "--xla_cpu_multi_thread_eigen=false intra_op_parallelism_threads=1"},
            {"PYTHONHASHSEED": "7", "JAX_ENABLE_X64": "1"},
        ]
        verdicts = []
        for v in variants:
            a = sh([PY, demo], env=env_for("/repo", **v), cwd=tmp)[0]
            b = sh(["taskset", "-c", "1", PY, demo], env=env_for(wt, **v), cwd=tmp)[0]
            verdicts.append({"env": v, "unchanged_exit": a, "changed_exit": b})
        meta["ambient_variants"] = verdicts
        meta["verdict_independent_of_ambient_state"] = all((x["unchanged_exit"] == 0) == (rc0 == 0) and (x["changed_exit"] != 0) == (rc1 != 0) for x in verdicts)
        meta["ran"].append("same demo under 3 ambient variants (hash seed, XLA single thread + 1 core, x64 session)")

        if not skip_suite:
            junit = os.path.join(tmp, "junit.xml")
            rc, out, err = sh(
                [PY, "-m", "pytest", "-ra", "-q", "-p", "no:cacheprovider", "--timeout=900", "--continue-on-collection-errors", f"--junitxml={junit}"],
                env=env_for(wt),
                cwd=wt,
                timeout=7200,
            )
            passed = set()
            for tc in ET.parse(junit).getroot().iter("testcase"):
                if not any(ch.tag in ("failure", "error", "skipped") for ch in tc):
                    passed.add(f"{tc.get('classname')}::{tc.get('name')}")
            base = json.load(open("/root/.vp/BASELINE.json"))
            missing = sorted(set(base["stable_pass"]) - passed)
            meta["suite_on_changed_tree"] = {"passed": len(passed), "baseline_stable_pass": len(base["stable_pass"]), "baseline_tests_not_passing": missing[:20], "summary": out.strip().splitlines()[-1:] }
            meta["ran"].append("full pytest suite (BASELINE.json cmd) on the patched worktree, compared with stable_pass")
            ok_suite = not missing
        else:
            ok_suite = None
        meta["confirmed"] = bool(ok_demo and (ok_suite is not False))
        print(json.dumps(meta, indent=1))
    finally:
        sh(["git", "-C", "/repo", "worktree", "remove", "--force", wt])
        shutil.rmtree(tmp, ignore_errors=True)
    old = {}
    mp = os.path.join(dest, "meta.json")
    if os.path.exists(mp):
        old = json.load(open(mp))
    old.update(meta)
    with open(mp, "w") as f:
        json.dump(old, f, indent=1)


if __name__ == "__main__":
    main()
