"""Deterministic simulator for the premise audit.

One run = one *plan* (which operations each simulated caller thread performs, which fault kinds
are enabled, pre-emption and fault rates) + one scheduler PRNG seed. Real Python threads execute
the operations, but only the thread holding the baton runs; at every yield point -- operation
boundaries and, via sys.monitoring LINE events, any source line of the audited package -- the
seeded scheduler decides who continues and whether an ambient fault is injected first. Every
decision is appended to an event log whose digest identifies the execution: same plan + same
seed + same code must give the same digest (checked by the driver in fresh processes).

Oracle: the bitwise digest of every completed operation equals the reference digest of the same
operation evaluated in isolation (ref mode of worker.py). Nothing else is asserted.

Fault kinds (all ambient -- they act on process state, never on an operation's arguments):
  clock_jump      simulated wall clock steps forwards/backwards, monotonic clocks jump forwards
  reseed          random.seed / numpy.random.seed with scheduler-chosen values
  gc              gc.collect()
  churn           allocate and drop a scheduler-chosen number of objects (moves id()/hash of new objects)
  clear_caches    jax.clear_caches() + equinox cache clear, only while every other thread is between operations
  x64_flip        jax_enable_x64 is toggled ("float64 once x64 is enabled"), only while every thread is between
                  operations; every operation builds what it uses after the flip and is compared with the
                  reference table of the session precision in force when it started
  crash           an InjectedCrash(BaseException) is raised at a package source line inside an operation;
                  the operation is abandoned (as by KeyboardInterrupt / MemoryError) and everything
                  that runs afterwards must still match the reference; the caller usually retries the
                  abandoned operation at once (as a user would)
"""

from __future__ import annotations

import faulthandler
import gc
import hashlib
import os
import random
import sys
import threading
import types
from dataclasses import dataclass, field

from seams import REAL_MONOTONIC, Seams
from workload import Catalogue, Pool, digest_tree, flatten_tree

FAULT_KINDS = ("clock_jump", "reseed", "gc", "churn", "clear_caches", "x64_flip", "crash")


class InjectedCrash(BaseException):
    """Raised by the simulator inside package code; BaseException so no `except Exception` hides it."""


@dataclass
class Plan:
    seed: int
    threads: list[list[str]]  # op keys per simulated caller thread
    p_line: float  # probability of a scheduling decision at a package source line
    p_fault: float  # probability of an ambient fault at a scheduling decision
    p_crash: float  # probability of an injected crash at a package source line
    faults: list[str]  # enabled fault kinds
    max_crashes: int = 2
    note: str = ""
    # scripted crash (fault enumeration over crash points): {"thread": t, "index": i, "fraction": f} -- the
    # operation at position i of thread t is abandoned at the floor(f * n)-th source line of the package it
    # executes, n being the number of lines the same thread executed for the same operation just before
    crash_at: dict | None = None
    # scripted pre-emption (single-preemption enumeration): {"thread": t, "index": i, "at_line": "file:line", "to": u}
    # -- at its first arrival at that source line the operation is parked and caller u runs (without further
    # pre-emption) until it has nothing left to do; then the parked operation continues
    switch_at: dict | None = None

    def to_json(self):
        return dict(self.__dict__)

    @staticmethod
    def from_json(d):
        return Plan(**{k: d[k] for k in Plan.__dataclass_fields__ if k in d})


def make_plan(seed: int, catalogue_keys: list[str], groups: dict[str, list[str]], mandatory: list[str] | None = None) -> Plan:
    """Swarm-style plan: everything varies per seed (sizes, mix, fault subset, rates)."""
    rng = random.Random(f"plan-{seed}")
    n_threads = rng.choice((1, 2, 2, 3, 3, 4))
    ops: list[str] = list(mandatory or [])
    group_names = sorted(groups)
    # a few configurations explored in depth (all forms, some duplicated across threads) ...
    for g in rng.sample(group_names, k=min(len(group_names), rng.randint(2, 6))):
        members = groups[g]
        take = rng.sample(members, k=rng.randint(1, min(len(members), 14)))  # short, diverse runs beat long uniform ones
        ops.extend(take)
        if rng.random() < 0.5:
            ops.extend(rng.sample(take, k=rng.randint(1, len(take))))  # same op again: races on one key
    # ... plus singles from anywhere
    ops.extend(rng.choice(catalogue_keys) for _ in range(rng.randint(0, 10)))
    rng.shuffle(ops)
    threads: list[list[str]] = [[] for _ in range(n_threads)]
    for k in ops:
        threads[rng.randrange(n_threads)].append(k)
    enabled = [f for f in FAULT_KINDS if rng.random() < 0.6]
    return Plan(
        seed=seed,
        threads=threads,
        p_line=rng.choice((0.0, 0.0005, 0.002, 0.01, 0.05)),
        p_fault=rng.choice((0.0, 0.05, 0.2, 0.5)) if enabled else 0.0,
        p_crash=rng.choice((0.0, 0.0, 0.0002, 0.001)) if "crash" in enabled else 0.0,
        faults=enabled,
        max_crashes=rng.randint(1, 3),
    )


def make_crash_probe_plan(seed: int, catalogue_keys: list[str], groups: dict[str, list[str]], meta: dict, target: str | None = None, at_line: str | None = None) -> Plan:
    """Crash-point probe: run an operation once (measuring its length), run it again and abandon it at a
    seeded fraction of its package lines, retry it, then use its neighbours (same configuration group: twins,
    other program forms) and itself again. Everything after the crash must match the isolated reference."""
    rng = random.Random(f"crash-probe-{seed}")
    target = target or rng.choice(catalogue_keys)
    g = meta[target]["group"]
    neighbours = [k for k in groups[g] if k != target]
    probes = rng.sample(neighbours, k=min(len(neighbours), rng.randint(1, 4)))
    probes += [rng.choice(catalogue_keys) for _ in range(rng.randint(0, 2))]
    rng.shuffle(probes)
    first = rng.random() < 0.5 and at_line is not None  # crash on the very first execution (cold state) or on the second
    # after the abandoned call: either the caller retries at once, or it first does something else -- operations
    # from *other* configurations, which share only library-wide state with the abandoned one -- and comes back later
    retry = rng.random() < 0.5
    foreign = [rng.choice(catalogue_keys) for _ in range(rng.randint(1, 3))]
    main = ([target] if first else [target, target]) + ([] if retry else foreign) + probes + (foreign if retry else []) + [target]
    threads = [main]
    if rng.random() < 0.4:  # a bystander whose operations interleave with the abandoned one
        threads.append([rng.choice(neighbours or catalogue_keys) for _ in range(rng.randint(1, 3))])
    ambient = [f for f in ("gc", "churn", "clear_caches", "x64_flip") if rng.random() < 0.3]
    return Plan(
        seed=seed,
        threads=threads,
        p_line=rng.choice((0.0, 0.0, 0.002, 0.01)) if len(threads) > 1 else 0.0,
        p_fault=0.2 if ambient else 0.0,
        p_crash=0.0,
        faults=ambient + ["crash"],
        max_crashes=1,
        note="crash-probe",
        crash_at={"thread": 0, "index": 0 if first else 1, "fraction": rng.random(), "at_line": at_line, "retry": retry},
    )


def make_switch_probe_plan(seed: int, target: str, other: str, at_line: str, extra: list[str]) -> Plan:
    """Two callers, one forced switch: `target` is parked at its first arrival at `at_line`, `other` (a twin,
    another program form or a duplicate of the same configuration) runs to completion, `target` resumes."""
    return Plan(
        seed=seed,
        threads=[[target] + list(extra), [other]],
        p_line=0.0,
        p_fault=0.0,
        p_crash=0.0,
        faults=[],
        max_crashes=0,
        note="switch-probe",
        switch_at={"thread": 0, "index": 0, "at_line": at_line, "to": 1},
    )


# --------------------------------------------------------------------------------------


def package_functions(root: str, exclude: tuple[str, ...]) -> list[types.CodeType]:
    """Every code object defined in a file under `root` (minus `exclude`), nested ones included."""
    root = root.rstrip("/") + "/"
    seen: dict[int, types.CodeType] = {}

    def walk(code: types.CodeType):
        if id(code) in seen:
            return
        seen[id(code)] = code
        for c in code.co_consts:
            if isinstance(c, types.CodeType):
                walk(c)

    for obj in gc.get_objects():
        if isinstance(obj, types.FunctionType):
            fn = obj.__code__.co_filename
            if fn.startswith(root) and not any(fn.startswith(e) for e in exclude):
                walk(obj.__code__)
    return sorted(seen.values(), key=lambda c: (c.co_filename, c.co_firstlineno, c.co_name))


@dataclass
class _Caller:
    idx: int
    ops: list[str]
    event: threading.Event = field(default_factory=threading.Event)
    thread: threading.Thread | None = None
    done: bool = False
    in_op: bool = False
    atomic: bool = False
    error: str | None = None
    rng: random.Random | None = None
    lines_in_op: int = 0
    crash_line: int = -1
    crash_at_line: str | None = None
    switch_at_line: str | None = None


TOOL_ID = 3  # sys.monitoring tool slot (0-5; 3 is unassigned by convention)


class Simulator:
    def __init__(self, plan: Plan, catalogue: Catalogue, seams: Seams, package_root: str, exclude: tuple[str, ...], wall_cap: float = 600.0):
        self.plan = plan
        self.cat = catalogue
        self.seams = seams
        self.root = package_root.rstrip("/") + "/"
        self.exclude = exclude
        # Decisions are drawn from one PRNG stream *per operation execution* (seeded from plan seed, thread,
        # operation key, its occurrence number in the thread and the attempt), not from one global stream:
        # removing an unrelated operation during minimisation then leaves every other operation's
        # pre-emptions, faults and crashes where they were.
        self.seed = plan.seed
        self.events = hashlib.sha256()
        self.n_events = 0
        self.trace: list[tuple] = []  # kept in full only when record_trace
        self.record_trace = False
        self.callers = [_Caller(i, list(ops)) for i, ops in enumerate(plan.threads)]
        self.by_ident: dict[int, _Caller] = {}
        self.results: list[tuple] = []  # (thread, index, key, status, digest, x64 at start, leaves or None)
        self.pool = Pool(catalogue.pool_builders)
        self.intended_x64 = False
        self.keep_outputs = False  # True: keep the flattened outputs so a caller can compare with tolerance
        self.all_done = threading.Event()
        self.crashes_left = plan.max_crashes if "crash" in plan.faults else 0
        self.stats = {
            "line_events": 0,
            "decisions": 0,
            "switches": 0,
            "line_switches": 0,
            "faults": {k: 0 for k in FAULT_KINDS},
            "ops_completed": 0,
            "ops_crashed": 0,
            "ops_raised": 0,
            "retries": 0,
            "session_leaks": 0,
            "lock_waits": 0,
            "scripted_switches": 0,
        }
        self.wall_cap = wall_cap
        self._monitoring = False
        self._line_firsts: dict = {}
        self.focus_files: set = set()
        self.exclusive = None

    # ------------------------------------------------------------------ event log
    def _log(self, *ev):
        self.n_events += 1
        self.events.update(repr(ev).encode())
        if self.record_trace:
            self.trace.append(ev)

    # ------------------------------------------------------------------ baton passing
    def _runnable(self):
        return [c for c in self.callers if not c.done]

    def _handover(self, cur: _Caller | None, nxt: _Caller):
        if cur is nxt:
            return
        self.stats["switches"] += 1
        if cur is not None:
            cur.event.clear()
        nxt.event.set()
        if cur is not None and not cur.done:
            cur.event.wait()

    def _inject_fault(self, cur: _Caller, site: str):
        kinds = [k for k in self.plan.faults if k != "crash"]
        if not kinds:
            return
        rng = cur.rng
        kind = rng.choice(kinds)
        if kind == "clock_jump":
            wall = rng.choice((-86400.0, -1.5, 0.001, 3.0, 3600.0, 3.2e7))
            mono = rng.choice((0.0, 0.001, 5.0, 1e6))
            self.seams.jump_clock(wall, mono)
            self._log("fault", kind, wall, mono)
        elif kind == "reseed":
            v = rng.getrandbits(32)
            import numpy as np

            with self.seams.harness():
                random.seed(v)
                np.random.seed(v)
            self._log("fault", kind, v)
        elif kind == "gc":
            gc.collect()
            self._log("fault", kind)
        elif kind == "churn":
            n = rng.choice((10, 1000, 50000))
            junk = [object() for _ in range(n)]
            del junk
            self._log("fault", kind, n)
        elif kind == "clear_caches":
            if any(c.in_op for c in self.callers):
                self._log("fault-skipped", kind)
                return
            clear_all_caches()
            self._log("fault", kind)
        elif kind == "x64_flip":
            if any(c.in_op for c in self.callers):
                self._log("fault-skipped", kind)
                return
            import jax

            new = not self.intended_x64
            self.intended_x64 = new
            with self.seams.harness():
                jax.config.update("jax_enable_x64", new)
            self._log("fault", kind, new)
        self.stats["faults"][kind] += 1

    def yield_point(self, cur: _Caller, kind: str, site: str):
        """A scheduling decision: maybe a fault, then choose who runs next."""
        self.stats["decisions"] += 1
        if self.plan.p_fault and cur.rng.random() < self.plan.p_fault:
            self._inject_fault(cur, site)
        runnable = self._runnable()
        if self.exclusive is not None:
            if self.exclusive.done:
                self.exclusive = None
            elif self.exclusive in runnable:
                runnable = [self.exclusive]
        nxt = cur.rng.choice(runnable) if runnable else None
        self._log("yield", kind, cur.idx, site, None if nxt is None else nxt.idx)
        if nxt is None:
            self.all_done.set()
            return
        if kind == "line" and nxt is not cur:
            self.stats["line_switches"] += 1
        self._handover(cur, nxt)

    def _lock_wait(self, kind: str) -> bool:
        """Called by a cooperative lock of the package that is held by a parked caller: run somebody else."""
        c = self.by_ident.get(threading.get_ident())
        if c is None or c.done or c.rng is None:
            return False
        others = [o for o in self._runnable() if o is not c]
        if not others:
            return False
        nxt = c.rng.choice(others)
        self.stats["lock_waits"] += 1
        self._log("yield", kind, c.idx, "", nxt.idx)
        self._handover(c, nxt)
        return True

    # ------------------------------------------------------------------ LINE events inside the package
    def _on_line(self, code: types.CodeType, line: int):
        c = self.by_ident.get(threading.get_ident())
        if c is None or not c.in_op or c.atomic:
            return
        self.stats["line_events"] += 1
        c.lines_in_op += 1
        if c.switch_at_line is not None and c.switch_at_line == f"{code.co_filename[len(self.root):]}:{line}" and not self._inside_staging_trace():
            c.switch_at_line = None
            to = self.callers[self.plan.switch_at["to"]]
            if not to.done:
                self.stats["scripted_switches"] += 1
                self.stats["line_switches"] += 1
                self._log("yield", "line-scripted", c.idx, f"{code.co_filename[len(self.root):]}:{line}", to.idx)
                self.exclusive = to  # nobody else is chosen until `to` has finished
                self._handover(c, to)
        if c.crash_at_line is not None and c.crash_at_line == f"{code.co_filename[len(self.root):]}:{line}" and self._natural_line_start(code, line):
            c.crash_line = c.lines_in_op  # fall through to the scripted crash below
            c.crash_at_line = None
        if c.lines_in_op >= c.crash_line > 0 and self._natural_line_start(code, line):
            c.crash_line = -1
            self.stats["faults"]["crash"] += 1
            self._log("fault", "crash-scripted", c.idx, code.co_filename[len(self.root):], line, c.lines_in_op)
            raise InjectedCrash(f"{code.co_filename}:{line}")
        r = c.rng.random()
        if self.crashes_left and r < self.plan.p_crash and self._natural_line_start(code, line):
            self.crashes_left -= 1
            self.stats["faults"]["crash"] += 1
            self._log("fault", "crash", c.idx, code.co_filename[len(self.root):], line)
            raise InjectedCrash(f"{code.co_filename}:{line}")
        p_line = self.plan.p_line
        if self.focus_files and len(self.callers) > 1 and code.co_filename[len(self.root):] in self.focus_files:
            p_line = max(p_line, 0.08)  # change-aware: pre-empt more often inside files with uncommitted changes
        if r < self.plan.p_crash + p_line and not self._inside_staging_trace():
            self.yield_point(c, "line", f"{code.co_filename[len(self.root):]}:{line}")

    def _natural_line_start(self, code: types.CodeType, line: int) -> bool:
        """True when the LINE event sits on the first instruction of its source line. A crash is injected
        only there. The compiler attributes the clean-up of a `with` block (the call of `__exit__` on the
        normal path) and loop back-edges to the line of the `with` / `for` statement, *outside* any exception
        handler; CPython itself never delivers an asynchronous exception between the end of a `with` body and
        its `__exit__` call, so raising there would manufacture leaked locks that no real fault can cause."""
        firsts = self._line_firsts.get(code)
        if firsts is None:
            firsts = {}
            for start, _end, ln in code.co_lines():
                if ln is not None and (ln not in firsts or start < firsts[ln]):
                    firsts[ln] = start
            self._line_firsts[code] = firsts
        try:
            lasti = sys._getframe(2).f_lasti
        except ValueError:
            return True
        return lasti == firsts.get(line, lasti)

    @staticmethod
    def _inside_staging_trace() -> bool:
        """True when the monitored package frame runs inside a JAX staging trace (`trace_to_jaxpr*` / `trace_to_subjaxpr*`: the bodies
        of scan / cond / while, jit and custom-derivative rules). Such traces are computed under jaxlib caches that
        make a second thread asking for the *same function* wait for the first one's result; a caller parked in there
        would dead-lock the baton holder (seen with one rollout function shared by all callers). No caller is
        parked inside a staging trace; crashes there are fine (the exception unwinds the cache entry)."""
        f = sys._getframe(3)
        depth = 0
        while f is not None and depth < 400:
            if f.f_code.co_name.startswith(("trace_to_jaxpr", "trace_to_subjaxpr")):  # _nocache, _dynamic, _nounits, ...
                return True
            f = f.f_back
            depth += 1
        return False

    def _start_monitoring(self):
        mon = sys.monitoring
        if self.plan.p_line <= 0 and self.plan.p_crash <= 0 and not self.plan.crash_at and not self.plan.switch_at and not (self.focus_files and len(self.callers) > 1):
            return
        mon.use_tool_id(TOOL_ID, "premise-audit")
        mon.register_callback(TOOL_ID, mon.events.LINE, self._on_line)
        self._codes = package_functions(self.root, self.exclude)
        for code in self._codes:
            mon.set_local_events(TOOL_ID, code, mon.events.LINE)
        self._monitoring = True

    def _stop_monitoring(self):
        if not self._monitoring:
            return
        mon = sys.monitoring
        for code in self._codes:
            mon.set_local_events(TOOL_ID, code, 0)
        mon.register_callback(TOOL_ID, mon.events.LINE, None)
        mon.free_tool_id(TOOL_ID)
        self._monitoring = False

    # ------------------------------------------------------------------ caller threads
    def _caller_main(self, c: _Caller):
        c.event.wait()
        self.by_ident[threading.get_ident()] = c
        try:
            seen: dict = {}
            measured: dict = {}
            for i, key in enumerate(c.ops):
                op = self.cat.ops[key]
                occ = seen[key] = seen.get(key, -1) + 1
                attempt = 0
                while True:
                    c.rng = random.Random(f"{self.seed}|{c.idx}|{key}|{occ}|{attempt}")
                    self.yield_point(c, "op-boundary", key)
                    self._log("op-start", c.idx, i, key, attempt)
                    import jax

                    # the session precision the *simulator* put in force; the library must not change it
                    x64 = self.intended_x64
                    ca = self.plan.crash_at
                    c.crash_line = -1
                    c.crash_at_line = None
                    sa = self.plan.switch_at
                    c.switch_at_line = sa["at_line"] if (sa and sa["thread"] == c.idx and sa["index"] == i and attempt == 0) else None
                    if ca and ca["thread"] == c.idx and ca["index"] == i and attempt == 0:
                        if ca.get("at_line"):
                            c.crash_at_line = ca["at_line"]  # abandon at the first arrival at this source line
                        else:
                            n_ref = measured.get(key, 400)
                            c.crash_line = max(1, int(ca["fraction"] * n_ref))
                    c.lines_in_op = 0
                    c.in_op = True
                    c.atomic = op.atomic
                    status, dig, leaves = "ok", "", None
                    try:
                        out = op.fn(self.pool)
                        c.atomic = True  # digesting is harness work, not package work
                        dig = digest_tree(out)
                        if self.keep_outputs:
                            leaves = flatten_tree(out)
                    except InjectedCrash:
                        status = "crashed"
                    except Exception as e:  # noqa: BLE001 - recorded and compared with the reference
                        status = "raised"
                        dig = f"{type(e).__name__}"
                        leaves = f"{type(e).__name__}: {str(e)[:300]}"  # message only (reported, never compared)
                    finally:
                        c.in_op = False
                        c.atomic = False
                    self.stats[{"ok": "ops_completed", "crashed": "ops_crashed", "raised": "ops_raised"}[status]] += 1
                    measured[key] = c.lines_in_op
                    self._log("op-end", c.idx, i, key, status)
                    self.results.append((c.idx, i, key, status, dig, x64, leaves))
                    if bool(jax.config.jax_enable_x64) != self.intended_x64 and not any(o.in_op for o in self.callers):
                        # nobody is inside the library and the process-wide precision flag is not what the
                        # simulator set: library code changed the session and did not put it back
                        self._log("session-leak", c.idx, i, key, bool(jax.config.jax_enable_x64))
                        self.results.append((c.idx, i, key, "session-leak", f"jax_enable_x64={bool(jax.config.jax_enable_x64)}", self.intended_x64, None))
                        self.stats["session_leaks"] += 1
                        with self.seams.harness():
                            jax.config.update("jax_enable_x64", self.intended_x64)
                    scripted = self.plan.crash_at if (self.plan.crash_at and self.plan.crash_at["thread"] == c.idx and self.plan.crash_at["index"] == i) else None
                    want_retry = scripted.get("retry", True) if scripted else (c.rng.random() < 0.7)
                    if status == "crashed" and attempt == 0 and want_retry:
                        attempt += 1  # the caller retries the abandoned operation, as a user would
                        self.stats["retries"] += 1
                        continue
                    break
        except BaseException as e:  # harness failure, reported as such
            c.error = f"{type(e).__name__}: {e}"
        finally:
            c.done = True
            c.rng = random.Random(f"{self.seed}|{c.idx}|exit")
            self.yield_point(c, "thread-exit", "")

    def run(self):
        """Returns (results, event_digest). Raises TimeoutError on a hang (harness error)."""
        self._log("plan", self.plan.seed, [len(t) for t in self.plan.threads], self.plan.p_line, self.plan.p_fault, self.plan.p_crash, tuple(self.plan.faults))
        for c in self.callers:
            c.thread = threading.Thread(target=self._caller_main, args=(c,), name=f"sim-caller-{c.idx}", daemon=True)
            c.thread.start()
        import jax

        x64_at_start = bool(jax.config.jax_enable_x64)
        self.intended_x64 = x64_at_start
        import colock

        colock.set_waiter(self._lock_wait)
        self._start_monitoring()
        try:
            first = random.Random(f"{self.seed}|start").choice(self.callers)
            if self.plan.switch_at:
                # the operation to be parked goes first and alone until the scripted switch fires
                first = self.callers[self.plan.switch_at["thread"]]
                self.exclusive = first
            self._log("start", first.idx)
            first.event.set()
            t0 = REAL_MONOTONIC()
            while not self.all_done.wait(timeout=1.0):
                if REAL_MONOTONIC() - t0 > self.wall_cap:
                    import tempfile

                    with tempfile.TemporaryFile("w+") as tf:
                        faulthandler.dump_traceback(file=tf, all_threads=True)
                        tf.seek(0)
                        dump = tf.read()
                    raise TimeoutError(f"simulated run {self.plan.seed} exceeded {self.wall_cap}s wall clock; threads:\n{dump[-6000:]}")
        finally:
            self._stop_monitoring()
            colock.set_waiter(None)
            if bool(jax.config.jax_enable_x64) != x64_at_start:
                with self.seams.harness():
                    jax.config.update("jax_enable_x64", x64_at_start)
        for c in self.callers:
            c.thread.join(timeout=5)
        errs = [f"caller {c.idx}: {c.error}" for c in self.callers if c.error]
        if errs:
            raise RuntimeError("; ".join(errs))
        return self.results, self.events.hexdigest()


def clear_all_caches():
    import jax

    jax.clear_caches()
    try:
        import equinox as eqx

        eqx.clear_caches()
    except Exception:  # pragma: no cover
        pass
    gc.collect()
