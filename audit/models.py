"""Reference-model operations (DESIGN.md §6.9).

A *model operation* evaluates a public-API program and, next to it, the small executable reference
model the property names for it -- the naive Python loop for rollout / repeat / the wrapper steppers,
eager one-at-a-time evaluation for jit / vmap / scan programs, a freshly constructed object for an
object that went through pytree operations (tree_at, flatten/unflatten, serialise/deserialise into an
in-memory file, filter_jit of the module), n small steps for one big step of a linear stepper, an
independent numpy implementation of exp(symbol * dt) for the linear steppers, the conserved quantity
/ divergence / norm for the invariants -- and raises ``ModelMismatch`` if the two differ beyond
rounding. It returns the API result, so inside a simulated run it is *also* compared with its
isolated reference like every other operation.

Consequences for the checks:
* in every simulated history (interleaved callers, abandoned and retried calls, ambient faults,
  precision-session switches) the model relation is re-evaluated on the state the history left
  behind -- a ModelMismatch there, with a clean isolated reference, is a history-dependent violation;
* a model operation that raises ModelMismatch *in its own isolated reference* (a process in which
  nothing else ever happened) is a violation in the empty history: deterministic, replayable as a
  one-operation plan.

Inputs stay fixed closed-form arrays (no input search, DESIGN.md §5): these relations decide the
property for the catalogue's programs and operation sequences, not for all inputs.
"""

from __future__ import annotations

import io
import math

import numpy as np

_L = 3.0
_DT = 0.05


class ModelMismatch(AssertionError):
    """API result and reference model differ beyond rounding."""


def _tol() -> float:
    import jax

    return 1e-9 if jax.config.jax_enable_x64 else 2e-4


def agree(got, want, what: str, factor: float = 1.0, absolute: float = 0.0):
    """Leaf-wise comparison relative to the leaf's scale; structure and shapes must be identical."""
    import jax

    g_leaves, g_def = jax.tree_util.tree_flatten(got)
    w_leaves, w_def = jax.tree_util.tree_flatten(want)
    if len(g_leaves) != len(w_leaves):
        raise ModelMismatch(f"{what}: {len(g_leaves)} leaves vs {len(w_leaves)} in the model")
    tol = _tol() * factor
    for i, (g, w) in enumerate(zip(g_leaves, w_leaves)):
        g, w = np.asarray(g), np.asarray(w)
        if g.shape != w.shape:
            raise ModelMismatch(f"{what}: leaf {i} has shape {g.shape}, model has {w.shape}")
        if g.size == 0:
            continue
        if not np.all(np.isfinite(g)):
            raise ModelMismatch(f"{what}: leaf {i} is not finite")
        scale = max(float(np.max(np.abs(w))), float(np.max(np.abs(g))), 1e-30)
        err = float(np.max(np.abs(g.astype(np.complex128) - w.astype(np.complex128))))
        if err > tol * scale + absolute:
            raise ModelMismatch(f"{what}: leaf {i} differs from the model by {err / scale:.3e} relative (tolerance {tol:.1e})")
    return got


def expect_value_error(fn, what: str):
    try:
        out = fn()
    except ValueError:
        return "rejected"
    except Exception as e:  # noqa: BLE001
        raise ModelMismatch(f"{what}: raised {type(e).__name__} instead of ValueError") from None
    raise ModelMismatch(f"{what}: malformed state was ACCEPTED (returned shape {getattr(out, 'shape', None)})")


# --------------------------------------------------------------------------------------
# inputs: band-limited (strictly below Nyquist) closed-form states, built with numpy only


def bl_modes(d: int, n: int):
    """A fixed set of integer mode vectors with every |m_j| <= (n-1)//2 (strictly below Nyquist), including the
    highest retained mode on every axis and mixed-sign combinations."""
    K = (n - 1) // 2
    modes = []
    for ax in range(d):
        for k in sorted({1, 2, K}):
            if 0 < k <= K:
                m = [0] * d
                m[ax] = k
                modes.append(tuple(m))
    if d >= 2:
        modes += [tuple([1] * d), tuple([K] + [-1] * (d - 1)), tuple([-2 if K >= 2 else -1] + [K] * (d - 1)), tuple([K] * d)]
    out = []
    for m in modes:
        if m not in out and tuple(-x for x in m) not in out:
            out.append(m)
    return out


def bl_field(c: int, d: int, n: int, variant: int = 0):
    """Real band-limited state (C, N, ..., N): sum of cosines of the modes above, plus a mean."""
    import jax.numpy as jnp

    idx = np.indices((n,) * d).astype(np.float64)
    u = np.zeros((c,) + (n,) * d)
    for ch in range(c):
        for j, m in enumerate(bl_modes(d, n)):
            phase = sum(m[a] * idx[a] for a in range(d)) * (2.0 * math.pi / n)
            amp = 1.0 / (1.0 + 0.5 * j)
            u[ch] += amp * np.cos(phase + 0.3 * j + 0.7 * ch + 0.41 * variant)
        u[ch] += 0.2 * (ch + 1) + 0.1 * variant
    return jnp.asarray(u, dtype=jnp.zeros(()).dtype)


def np_linear_step(u, d: int, L: float, dt: float, symbol):
    """Independent model of a linear constant-coefficient step: multiply every Fourier mode by
    exp(symbol(k) * dt); numpy, double precision. `symbol(kvec)` gets the list of physical wavenumber arrays."""
    u = np.asarray(u, dtype=np.float64)
    n = u.shape[-1]
    axes = tuple(range(1, d + 1))
    uh = np.fft.fftn(u, axes=axes)
    ks = np.meshgrid(*[np.fft.fftfreq(n, 1.0 / n) * (2.0 * math.pi / L) for _ in range(d)], indexing="ij")
    uh = uh * np.exp(symbol(ks) * dt)[None]
    return np.real(np.fft.ifftn(uh, axes=axes))


LINEAR_SYMBOLS = {
    # documented PDEs with the constructor defaults / the coefficients passed below
    "stepper.Advection": ({}, lambda ks: -1j * 1.0 * sum(ks)),
    "stepper.Diffusion": ({}, lambda ks: -0.01 * sum(k**2 for k in ks)),
    "stepper.AdvectionDiffusion": ({}, lambda ks: -1j * 1.0 * sum(ks) - 0.01 * sum(k**2 for k in ks)),
    "stepper.Dispersion": ({}, lambda ks: 1.0 * sum((1j * k) ** 3 for k in ks)),
    "stepper.HyperDiffusion": ({}, lambda ks: -0.0001 * sum(k**4 for k in ks)),
    "stepper.generic.GeneralLinearStepper": (
        {"linear_coefficients": (0.0, -0.3, 0.02, 0.004, -0.0003)},
        lambda ks: sum(a * sum((1j * k) ** j for k in ks) for j, a in enumerate((0.0, -0.3, 0.02, 0.004, -0.0003))),
    ),
    "stepper.Diffusion/anisotropic": ({"diffusivity": "diag"}, None),
}


def add_model_ops(cat, Op):  # noqa: C901
    import equinox as eqx
    import jax
    import jax.numpy as jnp

    import exponax as ex
    from workload import _field, _resolve

    def add(key, fn, exports, group, cost=2, atomic=False):
        cat.add(Op(key, fn, tuple(exports), group, cost=cost, atomic=atomic))

    def loop(step, u, n):
        out = []
        for _ in range(n):
            u = step(u)
            out.append(u)
        return u, out

    def stack(states, like):
        if states:
            return jnp.stack(states)
        return jnp.zeros((0,) + like.shape, dtype=like.dtype)

    # ------------------------------------------------------------------ C14: trajectory utilities and wrappers = naive loop
    steppers14 = {
        "KS16": lambda: ex.stepper.KuramotoSivashinsky(1, _L, 16, _DT),
        "Burgers15": lambda: ex.stepper.Burgers(1, _L, 15, _DT),
        "Diffusion2d8": lambda: ex.stepper.Diffusion(2, _L, 8, _DT),
    }
    for sname, mk in steppers14.items():
        for n in (0, 1, 2, 5):
            for init in (False, True):

                def _roll(pool, mk=mk, n=n, init=init):
                    s = mk()
                    u = bl_field(s.num_channels, s.num_spatial_dims, s.num_points)
                    got = ex.rollout(s, n, include_init=init)(u)
                    last, states = loop(s, u, n)
                    agree(got, stack(([u] if init else []) + states, u), f"rollout(n={n}, include_init={init}) vs naive loop", 4)
                    agree(ex.repeat(s, n)(u), last, f"repeat(n={n}) vs naive loop", 4)
                    return got

                add(f"model:C14:rollout[{sname},n={n},init={init}]", _roll, ["exponax.rollout", "exponax.repeat"], "traj")

    for n in (0, 1, 2, 4):
        for constant in (False, True):

            def _roll_aux(pool, n=n, constant=constant):
                s = ex.ForcedStepper(ex.stepper.AdvectionDiffusion(1, _L, 15, _DT))
                u = bl_field(1, 1, 15)
                fs = jnp.stack([_field(1, 1, 15, v) for v in range(n)]) if n else jnp.zeros((0, 1, 15), dtype=u.dtype)
                aux = _field(1, 1, 15, 7) if constant else fs
                got = ex.rollout(s, n, include_init=True, takes_aux=True, constant_aux=constant)(u, aux)
                got_last = ex.repeat(s, n, takes_aux=True, constant_aux=constant)(u, aux)
                states, v = [u], u
                for i in range(n):
                    v = s(v, aux if constant else fs[i])
                    states.append(v)
                agree(got, jnp.stack(states), f"rollout with {'constant' if constant else 'per-step'} aux, n={n}, vs naive loop", 4)
                agree(got_last, v, f"repeat with {'constant' if constant else 'per-step'} aux, n={n}, vs naive loop", 4)
                return got, got_last

            add(f"model:C14:rollout-aux[n={n},constant={constant}]", _roll_aux, ["exponax.rollout", "exponax.repeat", "exponax.ForcedStepper"], "traj")

    def _pytree_state(pool):
        # a stepper function over a pytree state with a pytree aux; integer arithmetic, so the comparison is exact
        def step(state, aux):
            return {"digits": state["digits"] * 3 + aux["d"], "count": state["count"] + aux["inc"]}

        u = {"digits": jnp.asarray([1, 2, 3], dtype=jnp.int32), "count": jnp.asarray(0, dtype=jnp.int32)}
        out = []
        for n in (0, 1, 2, 3):
            aux = {"d": (jnp.arange(n * 3, dtype=jnp.int32).reshape(n, 3) % 5), "inc": jnp.arange(n, dtype=jnp.int32) + 1}
            v, states = u, []
            for i in range(n):
                v = step(v, jax.tree_util.tree_map(lambda x: x[i], aux))
                states.append(v)
            want_trj = jax.tree_util.tree_map(lambda *xs: jnp.stack(xs), *states) if states else jax.tree_util.tree_map(lambda x: jnp.zeros((0,) + x.shape, x.dtype), u)
            got = ex.repeat(step, n, takes_aux=True, constant_aux=False)(u, aux)
            got_trj = ex.rollout(step, n, takes_aux=True, constant_aux=False)(u, aux)
            agree(got, v, f"repeat over a pytree state with per-step pytree aux, n={n}", 0.0)
            agree(got_trj, want_trj, f"rollout over a pytree state with per-step pytree aux, n={n}", 0.0)
            out.append((got, got_trj))
        return out

    add("model:C14:pytree-state-per-step-aux", _pytree_state, ["exponax.rollout", "exponax.repeat"], "traj")

    for sub_len, T in ((1, 6), (2, 6), (4, 6), (6, 6), (3, 5)):

        def _sub(pool, sub_len=sub_len, T=T):
            trj = jnp.stack([_field(1, 1, 16, v) for v in range(T)])
            tree = {"a": trj, "b": trj[:, :, :4]}
            got = ex.stack_sub_trajectories(trj, sub_len)
            got_tree = ex.stack_sub_trajectories(tree, sub_len)
            want = jnp.stack([trj[i : i + sub_len] for i in range(T - sub_len + 1)])
            agree(got, want, f"stack_sub_trajectories(sub_len={sub_len}, T={T}) vs explicit windows", 0.0)
            agree(got_tree, {"a": want, "b": want[:, :, :, :4]}, "stack_sub_trajectories on a pytree vs explicit windows", 0.0)
            return got, got_tree

        add(f"model:C14:sub-trajectories[sub_len={sub_len},T={T}]", _sub, ["exponax.stack_sub_trajectories"], "traj", cost=1)

    inner14 = {
        "Burgers15": lambda **kw: ex.stepper.Burgers(1, _L, 15, _DT, **kw),
        "KS16": lambda **kw: ex.stepper.KuramotoSivashinsky(1, _L, 16, _DT, **kw),
        "Diffusion2d9": lambda **kw: ex.stepper.Diffusion(2, _L, 9, _DT, **kw),
        "KdV15": lambda **kw: ex.stepper.KortewegDeVries(1, _L, 15, _DT, **kw),
    }
    for iname, mk in inner14.items():
        for sub in (1, 2, 3):

            def _rep(pool, mk=mk, sub=sub):
                s = mk()
                w = ex.RepeatedStepper(s, sub)
                u = bl_field(s.num_channels, s.num_spatial_dims, s.num_points)
                got = w(u)
                agree(got, loop(s, u, sub)[0], f"RepeatedStepper(n={sub}) vs {sub} applications of the inner stepper", 4)
                agree(w.step(u), got, "RepeatedStepper.step vs __call__", 1)
                agree(jnp.asarray(w.dt), jnp.asarray(sub * s.dt), f"RepeatedStepper.dt vs {sub} * inner dt", 1)
                if tuple(got.shape) != tuple(u.shape):
                    raise ModelMismatch("RepeatedStepper changed the state's shape")
                return got

            add(f"model:C14:repeated[{iname},sub={sub}]", _rep, ["exponax.RepeatedStepper"], "traj")

        def _nested(pool, mk=mk):
            s = mk()
            inner = ex.RepeatedStepper(s, 2)
            w = ex.RepeatedStepper(inner, 3)
            u = bl_field(s.num_channels, s.num_spatial_dims, s.num_points)
            got = w(u)
            agree(got, loop(s, u, 6)[0], "RepeatedStepper(RepeatedStepper(s, 2), 3) vs 6 applications of s", 6)
            agree(jnp.asarray(w.dt), jnp.asarray(6 * s.dt), "nested RepeatedStepper.dt vs 6 * dt", 1)
            f = _field(s.num_channels, s.num_spatial_dims, s.num_points, 5)
            agree(ex.ForcedStepper(w)(u, f), w(u + (6 * s.dt) * f), "ForcedStepper(nested RepeatedStepper)(u, f) vs unforced step of u + dt_eff * f", 6)
            agree(ex.ForcedStepper(inner)(u, f), inner(u + (2 * s.dt) * f), "ForcedStepper(RepeatedStepper(s, 2))(u, f) vs unforced step of u + 2 dt f", 6)
            agree(ex.rollout(w, 2)(u), jnp.stack([loop(s, u, 6)[0], loop(s, u, 12)[0]]), "rollout of a nested RepeatedStepper vs naive loop", 12)
            return got

        add(f"model:C14:nested-repeated[{iname}]", _nested, ["exponax.RepeatedStepper", "exponax.ForcedStepper", "exponax.rollout"], "traj", cost=3)

    # object life cycles: construct, then functional updates / round trips, then call (the equinox idioms)
    def _lifecycle(pool, which):
        slow = ex.stepper.Diffusion(1, _L, 16, _DT, diffusivity=0.01)
        fast = ex.stepper.Diffusion(1, _L, 16, _DT, diffusivity=0.5)
        u = bl_field(1, 1, 16)
        w = ex.RepeatedStepper(slow, 4)
        first = w(u)  # the object is used before it is updated
        if which == "tree_at-stepper":
            w2 = eqx.tree_at(lambda r: r.stepper, w, fast)
            want = loop(fast, u, 4)[0]
        elif which == "tree_at-num_sub_steps":
            w2 = eqx.tree_at(lambda r: r.num_sub_steps, w, 7)
            want = loop(slow, u, 7)[0]
        elif which == "deserialise":
            buf = io.BytesIO()  # in-memory file: the only storage this library ever meets
            eqx.tree_serialise_leaves(buf, ex.RepeatedStepper(fast, 4))
            buf.seek(0)
            w2 = eqx.tree_deserialise_leaves(buf, w)
            want = loop(fast, u, 4)[0]
        elif which == "flatten-unflatten":
            leaves, treedef = jax.tree_util.tree_flatten(ex.RepeatedStepper(fast, 4))
            w2 = jax.tree_util.tree_unflatten(treedef, leaves)
            want = loop(fast, u, 4)[0]
        elif which == "tree_map-scale":
            # every array leaf of a Diffusion stepper with 0.5 x dt ... not a documented relation; use identity map
            w2 = jax.tree_util.tree_map(lambda x: x, ex.RepeatedStepper(fast, 4))
            want = loop(fast, u, 4)[0]
        elif which == "partition-combine":
            dyn, static = eqx.partition(ex.RepeatedStepper(fast, 4), eqx.is_array)
            w2 = eqx.combine(dyn, static)
            want = loop(fast, u, 4)[0]
        elif which == "nonlinear-tree_at":
            b1 = ex.stepper.Burgers(1, _L, 15, _DT, diffusivity=0.02)
            b2 = ex.stepper.Burgers(1, _L, 15, _DT, diffusivity=0.3)
            u = bl_field(1, 1, 15)
            w = ex.RepeatedStepper(b1, 3)
            first = w(u)
            w2 = eqx.tree_at(lambda r: r.stepper, w, b2)
            want = loop(b2, u, 3)[0]
        else:
            raise KeyError(which)
        got = w2(u)
        agree(got, want, f"RepeatedStepper after {which} vs n applications of its (current) inner stepper", 6)
        agree(eqx.filter_jit(w2)(u), want, f"filter_jit(RepeatedStepper after {which}) vs naive loop", 6)
        return first, got

    for which in ("tree_at-stepper", "tree_at-num_sub_steps", "deserialise", "flatten-unflatten", "tree_map-scale", "partition-combine", "nonlinear-tree_at"):
        add(f"model:C14,C06:lifecycle-repeated[{which}]", lambda pool, which=which: _lifecycle(pool, which), ["exponax.RepeatedStepper"], "traj", cost=3, atomic=True)

    def _stacked_wrappers(pool):
        # a batch of wrapped steppers built over a parameter grid, updated, compiled: each member = one at a time
        nus = (0.02, 0.1, 0.4)
        sub = 3

        def make(nu):
            return ex.RepeatedStepper(ex.stepper.Burgers(1, _L, 15, _DT, diffusivity=nu), sub)

        u = bl_field(1, 1, 15)
        want = jnp.stack([loop(ex.stepper.Burgers(1, _L, 15, _DT, diffusivity=nu), u, sub)[0] for nu in nus])
        stacked = jax.tree_util.tree_map(lambda *xs: jnp.stack(xs), *[eqx.filter(make(nu), eqx.is_array) for nu in nus])
        stacked = eqx.combine(stacked, eqx.filter(make(nus[0]), eqx.is_array, inverse=True))
        got = eqx.filter_vmap(lambda s, x: s(x), in_axes=(eqx.if_array(0), None))(stacked, u)
        agree(got, want, "stacked RepeatedSteppers under filter_vmap vs one at a time", 6)
        got_jit = eqx.filter_jit(eqx.filter_vmap(lambda s, x: s(x), in_axes=(eqx.if_array(0), None)))(stacked, u)
        agree(got_jit, want, "jit(vmap(stacked RepeatedSteppers)) vs one at a time", 6)
        # replace the members' inner steppers by the reversed parameter grid, then call
        rev = jax.tree_util.tree_map(lambda x: x[::-1], eqx.filter(stacked.stepper, eqx.is_array))
        stacked2 = eqx.tree_at(lambda s: s.stepper, stacked, eqx.combine(rev, eqx.filter(stacked.stepper, eqx.is_array, inverse=True)))
        got2 = eqx.filter_jit(eqx.filter_vmap(lambda s, x: s(x), in_axes=(eqx.if_array(0), None)))(stacked2, u)
        agree(got2, want[::-1], "stacked RepeatedSteppers after tree_at of the inner steppers vs one at a time", 6)
        return got, got2

    add("model:C06,C14:stacked-repeated-steppers", _stacked_wrappers, ["exponax.RepeatedStepper", "exponax.stepper.Burgers"], "traj", cost=4, atomic=True)

    # ------------------------------------------------------------------ C12 / C14: ForcedStepper
    for sname, mk in (("Diffusion16", lambda: ex.stepper.Diffusion(1, _L, 16, _DT)), ("Burgers2d9", lambda: ex.stepper.Burgers(2, _L, 9, _DT)), ("KdV15,dt=0.1", lambda: ex.stepper.KortewegDeVries(1, _L, 15, 0.1))):

        def _forced(pool, mk=mk):
            s = mk()
            w = ex.ForcedStepper(s)
            u = bl_field(s.num_channels, s.num_spatial_dims, s.num_points)
            f = _field(s.num_channels, s.num_spatial_dims, s.num_points, 3)
            got = w(u, f)
            agree(got, s(u + s.dt * f), "ForcedStepper(u, f) vs unforced step of u + dt * f", 4)
            agree(w(u, jnp.zeros_like(u)), s(u), "ForcedStepper with zero forcing vs the unforced stepper", 4)
            agree(w.step(u, f), got, "ForcedStepper.step vs __call__", 1)
            return got

        add(f"model:C12,C14:forced[{sname}]", _forced, ["exponax.ForcedStepper"], "traj")

    # ------------------------------------------------------------------ C20: rejection survives wrappers and pytree rebuilds
    def _bad_states(s):
        c, d, n = s.num_channels, s.num_spatial_dims, s.num_points
        return {
            "extra channel": jnp.ones((c + 1,) + (n,) * d),
            "batch axis": jnp.ones((2, c) + (n,) * d),
            "missing channel axis": jnp.ones((n,) * d),
            "wrong points per axis": jnp.ones((c,) + (n + 2,) * d),
        }

    rej = {
        "Diffusion1d": lambda: ex.stepper.Diffusion(1, _L, 16, _DT),
        "Burgers2d": lambda: ex.stepper.Burgers(2, _L, 8, _DT),
        "Wave1d": lambda: ex.stepper.Wave(1, _L, 16, _DT),
        "NormalizedConvection1d": lambda: ex.stepper.generic.NormalizedConvectionStepper(1, 16),
    }
    rebuilds = {
        "fresh": lambda s: s,
        "tree_map-identity": lambda s: jax.tree_util.tree_map(lambda x: x, s),
        "tree_at-dt": lambda s: eqx.tree_at(lambda t: t.dt, s, s.dt),
        "partition-combine": lambda s: eqx.combine(*eqx.partition(s, eqx.is_array)),
        "flatten-unflatten": lambda s: (lambda lt: jax.tree_util.tree_unflatten(lt[1], lt[0]))(jax.tree_util.tree_flatten(s)),
        "filter_jit": lambda s: eqx.filter_jit(s),
        "repeated-1": lambda s: ex.RepeatedStepper(s, 1),
        "repeated-3": lambda s: ex.RepeatedStepper(s, 3),
        "repeated-rebuilt": lambda s: jax.tree_util.tree_map(lambda x: x, ex.RepeatedStepper(s, 2)),
        "vmapped": lambda s: (lambda f: (lambda u: f(u[None])[0]))(jax.vmap(s)),
    }
    for sname, mk in rej.items():
        for rname, rebuild in rebuilds.items():

            def _rej(pool, mk=mk, rebuild=rebuild, rname=rname):
                s = mk()
                good = bl_field(s.num_channels, s.num_spatial_dims, s.num_points)
                first = s(good)
                r = rebuild(s)
                out = r(good)
                if tuple(out.shape) != tuple(good.shape):
                    raise ModelMismatch(f"correctly shaped state returned shape {out.shape} after {rname}")
                agree(out, loop(s, good, {"repeated-3": 3, "repeated-rebuilt": 2}.get(rname, 1))[0], f"stepper after {rname} vs the stepper itself", 4)
                for kind, bad in _bad_states(s).items():
                    if rname == "vmapped" and kind == "batch axis":
                        continue
                    expect_value_error(lambda bad=bad: r(bad), f"{kind} {tuple(bad.shape)} offered after {rname}")
                return first, out

            add(f"model:C20:reject-after[{sname},{rname}]", _rej, ["exponax.RepeatedStepper"], "traj" if "repeated" in rname else "misc", cost=2, atomic=True)

    # ------------------------------------------------------------------ C06: programs = eager, one at a time
    prog = [
        ("stepper.Burgers", 1, 16, {}), ("stepper.Burgers", 2, 9, {}), ("stepper.KortewegDeVries", 1, 15, {}), ("stepper.KuramotoSivashinsky", 1, 16, {"order": 4}),
        ("stepper.Diffusion", 2, 8, {}), ("stepper.Advection", 1, 15, {}), ("stepper.Wave", 1, 16, {}), ("stepper.reaction.GrayScott", 1, 16, {}),
        ("stepper.reaction.FisherKPP", 2, 8, {}), ("stepper.NavierStokesVorticity", 2, 8, {}), ("stepper.KolmogorovFlowVorticity", 2, 9, {}),
        ("stepper.generic.GeneralNonlinearStepper", 1, 16, {}), ("stepper.generic.DifficultyConvectionStepper", 1, 16, {}), ("stepper.NavierStokesVelocity", 3, 6, {}),
    ]  # fmt: skip
    for name, d, n, kw in prog:
        normalized = "Normalized" in name or "Difficulty" in name

        def _programs(pool, name=name, d=d, n=n, kw=kw, normalized=normalized):
            cls = _resolve(name)
            s = cls(d, n, **kw) if normalized else cls(d, _L, n, _DT, **kw)
            us = [_field(s.num_channels, d, n, v) * 0.5 for v in range(3)]
            eager = [s(u) for u in us]
            agree(eqx.filter_jit(s)(us[0]), eager[0], "filter_jit(stepper) vs eager", 4)
            agree(jax.jit(lambda u: s(u))(us[1]), eager[1], "jit(lambda) vs eager", 4)
            agree(jax.vmap(s)(jnp.stack(us)), jnp.stack(eager), "vmap over states vs one at a time", 4)
            # each member depends only on that member
            agree(jax.vmap(s)(jnp.stack([us[0], us[2]]))[0], eager[0], "batch member 0 with another neighbour", 4)
            trj = loop(s, us[0], 3)[1]
            got = ex.rollout(s, 3)(us[0])
            agree(got, jnp.stack(trj), "rollout vs naive loop", 8)
            agree(eqx.filter_jit(ex.rollout(s, 3))(us[0]), jnp.stack(trj), "jit(rollout) vs naive loop", 8)
            a = jax.vmap(ex.rollout(s, 2))(jnp.stack(us[:2]))
            b = ex.rollout(jax.vmap(s), 2)(jnp.stack(us[:2]))
            agree(a, jnp.swapaxes(b, 0, 1), "vmap(rollout) vs rollout(vmap) with batch and time exchanged", 8)
            return got

        add(f"model:C06:programs[{name},D={d},N={n}{',' + str(kw) if kw else ''}]", _programs, [f"exponax.{name}", "exponax.rollout"], "programs", cost=5, atomic=True)

    sweeps = [
        ("stepper.Burgers", "diffusivity", (0.05, 0.1, 0.3), 1, 16),
        ("stepper.KuramotoSivashinsky", "second_order_scale", (1.0, 1.2), 1, 16),
        ("stepper.reaction.FisherKPP", "reactivity", (1.0, 0.5, 0.0), 1, 16),
        ("stepper.reaction.AllenCahn", "first_order_coefficient", (1.0, 0.0), 1, 16),
        ("stepper.generic.GeneralPolynomialStepper", None, None, 1, 16),
        ("stepper.KortewegDeVries", "convection_scale", (-6.0, 0.0, 1.0), 1, 15),
    ]
    for name, par, values, d, n in sweeps:
        if par is None:
            continue

        def _sweep(pool, name=name, par=par, values=values, d=d, n=n):
            cls = _resolve(name)
            steppers = eqx.filter_vmap(lambda v: cls(d, _L, n, _DT, **{par: v}))(jnp.asarray(values))
            u = _field(steppers.num_channels, d, n) * 0.5
            got = eqx.filter_vmap(lambda s, x: s(x), in_axes=(eqx.if_array(0), None))(steppers, u)
            want = jnp.stack([cls(d, _L, n, _DT, **{par: v})(u) for v in values])
            agree(got, want, f"batch of steppers over {par}={values} vs one stepper at a time", 8)
            return got

        add(f"model:C06:param-sweep[{name},{par}]", _sweep, [f"exponax.{name}"], "programs", cost=4, atomic=True)

    # ------------------------------------------------------------------ C01: linear steppers vs an independent numpy model; semigroup; inverse
    for name, (kw, symbol) in LINEAR_SYMBOLS.items():
        if symbol is None:
            continue
        for d, n in ((1, 16), (1, 15), (2, 8), (2, 9), (3, 6), (3, 5)):
            for dt in (_DT, 7.0):

                def _exact(pool, name=name, kw=kw, symbol=symbol, d=d, n=n, dt=dt):
                    s = _resolve(name)(d, _L, n, dt, **kw)
                    u = bl_field(1, d, n)
                    got = s(u)
                    agree(got, np_linear_step(u, d, _L, dt, symbol), f"{name} D={d} N={n} dt={dt}: one step vs exp(symbol * dt) applied mode by mode (numpy)", 20)
                    return got

                add(f"model:C01:exact[{name},D={d},N={n},dt={dt}]", _exact, [f"exponax.{name}"], f"linear{d}", cost=3 if d == 3 else 2)

    def _aniso(pool, d):
        n = {2: 9, 3: 5}[d]
        nu = np.asarray([0.02, 0.005, 0.04][:d])
        c = np.asarray([0.7, -0.4, 1.3][:d])
        u = bl_field(1, d, n)
        out = []
        got = ex.stepper.Diffusion(d, _L, n, 0.3, diffusivity=jnp.asarray(nu))(u)
        agree(got, np_linear_step(u, d, _L, 0.3, lambda ks: -sum(a * k**2 for a, k in zip(nu, ks))), "diagonal diffusion vs numpy model", 20)
        out.append(got)
        A = np.asarray([[0.03, 0.01, 0.0], [0.01, 0.02, 0.005], [0.0, 0.005, 0.04]])[:d, :d]
        got = ex.stepper.Diffusion(d, _L, n, 0.3, diffusivity=jnp.asarray(A))(u)
        agree(got, np_linear_step(u, d, _L, 0.3, lambda ks: -sum(A[i, j] * ks[i] * ks[j] for i in range(d) for j in range(d))), "full-matrix diffusion vs numpy model", 20)
        out.append(got)
        got = ex.stepper.Advection(d, _L, n, 0.3, velocity=jnp.asarray(c))(u)
        agree(got, np_linear_step(u, d, _L, 0.3, lambda ks: -1j * sum(a * k for a, k in zip(c, ks))), "advection with a velocity vector vs numpy model", 20)
        out.append(got)
        got = ex.stepper.AdvectionDiffusion(d, _L, n, 0.3, velocity=jnp.asarray(c), diffusivity=jnp.asarray(nu))(u)
        agree(got, np_linear_step(u, d, _L, 0.3, lambda ks: -1j * sum(a * k for a, k in zip(c, ks)) - sum(a * k**2 for a, k in zip(nu, ks))), "advection-diffusion with vectors vs numpy model", 20)
        out.append(got)
        return out

    for d in (2, 3):
        add(f"model:C01:exact-anisotropic[D={d}]", lambda pool, d=d: _aniso(pool, d), ["exponax.stepper.Diffusion", "exponax.stepper.Advection", "exponax.stepper.AdvectionDiffusion"], f"linear{d}", cost=3)

    lin_all = [
        ("stepper.Advection", False, True), ("stepper.Diffusion", False, False), ("stepper.AdvectionDiffusion", False, False), ("stepper.Dispersion", False, True),
        ("stepper.HyperDiffusion", False, False), ("stepper.Wave", False, True), ("stepper.generic.GeneralLinearStepper", False, False),
        ("stepper.generic.NormalizedLinearStepper", True, False), ("stepper.generic.DifficultyLinearStepper", True, False),
    ]  # fmt: skip
    for name, normalized, reversible in lin_all:
        for d, n in ((1, 16), (1, 15), (2, 9)):

            def _semigroup(pool, name=name, normalized=normalized, reversible=reversible, d=d, n=n):
                cls = _resolve(name)
                u = None
                out = []
                if normalized:
                    s = cls(d, n)
                    u = bl_field(s.num_channels, d, n)
                    agree(eqx.filter_jit(s)(u), s(u), "jit vs eager", 4)
                    out.append(s(u))
                    return out
                s1 = cls(d, _L, n, _DT)
                s4 = cls(d, _L, n, 4 * _DT)
                u = bl_field(s1.num_channels, d, n)
                big = s4(u)
                agree(loop(s1, u, 4)[0], big, f"{name}: 4 calls with dt vs one call with 4 dt", 20)
                out.append(big)
                if reversible:
                    back = cls(d, _L, n, -_DT)(s1(u))
                    agree(back, u, f"{name}: a call with -dt undoes a call with dt", 20)
                    out.append(back)
                return out

            add(f"model:C01:semigroup[{name},D={d},N={n}]", _semigroup, [f"exponax.{name}"], f"linear{d}", cost=2)

    # ------------------------------------------------------------------ C13: interfaces give the same dynamics
    gen = ex.stepper.generic

    def _interfaces(pool, d, n, kind):
        L, dt = 2.5, 0.02
        u = bl_field(1 if kind != "convection-multi" else d, d, n) * 0.5
        out = []
        lin = (0.0, -0.2, 0.03)
        nlin = gen.normalize_coefficients(lin, domain_extent=L, dt=dt)
        dlin = gen.reduce_normalized_coefficients_to_difficulty(nlin, num_spatial_dims=d, num_points=n)
        if kind == "linear":
            a = gen.GeneralLinearStepper(d, L, n, dt, linear_coefficients=lin)(u)
            b = gen.NormalizedLinearStepper(d, n, normalized_linear_coefficients=nlin)(u)
            c = gen.DifficultyLinearStepper(d, n, linear_difficulties=dlin)(u)
            agree(b, a, "NormalizedLinearStepper(alpha_j = a_j dt / L^j) vs GeneralLinearStepper", 20)
            agree(c, a, "DifficultyLinearStepper(reduced) vs GeneralLinearStepper", 20)
            # only the non-dimensional groups matter: another (L, dt, a) with the same alphas
            L2, dt2 = 1.0, 0.1
            lin2 = gen.denormalize_coefficients(nlin, domain_extent=L2, dt=dt2)
            agree(gen.GeneralLinearStepper(d, L2, n, dt2, linear_coefficients=lin2)(u), a, "same non-dimensional groups, other (L, dt, a)", 20)
            agree(ex.stepper.AdvectionDiffusion(d, L, n, dt, velocity=0.2, diffusivity=0.03)(u), a, "AdvectionDiffusion vs GeneralLinearStepper with (0, -c, nu)", 20)
            out += [a, b, c]
        elif kind == "convection":
            scale = 0.8
            a = gen.GeneralConvectionStepper(d, L, n, dt, linear_coefficients=lin, convection_scale=scale, single_channel=True)(u)
            ns = gen.normalize_convection_scale(scale, domain_extent=L, dt=dt)
            b = gen.NormalizedConvectionStepper(d, n, normalized_linear_coefficients=nlin, normalized_convection_scale=ns, single_channel=True)(u)
            agree(b, a, "NormalizedConvectionStepper vs GeneralConvectionStepper", 40)
            ds = gen.reduce_normalized_convection_scale_to_difficulty(ns, num_spatial_dims=d, num_points=n, maximum_absolute=1.0)
            c = gen.DifficultyConvectionStepper(d, n, linear_difficulties=dlin, convection_difficulty=ds, maximum_absolute=1.0, single_channel=True)(u)
            agree(c, a, "DifficultyConvectionStepper vs GeneralConvectionStepper", 40)
            out += [a, b, c]
        return out

    for d, n in ((1, 16), (1, 15), (2, 9)):
        for kind in ("linear", "convection"):
            add(f"model:C13:interfaces[{kind},D={d},N={n}]", lambda pool, d=d, n=n, kind=kind: _interfaces(pool, d, n, kind), ["exponax.stepper.generic.GeneralLinearStepper"], f"generic{d}", cost=4)

    def _specific_vs_generic(pool, d, n):
        L, dt = _L, _DT
        u = bl_field(d, d, n) * 0.5
        u1 = bl_field(1, d, n) * 0.5
        out = []
        a = ex.stepper.Burgers(d, L, n, dt, diffusivity=0.05)(u)
        b = gen.GeneralConvectionStepper(d, L, n, dt, linear_coefficients=(0.0, 0.0, 0.05), convection_scale=1.0)(u)
        agree(a, b, "Burgers vs GeneralConvectionStepper((0, 0, nu), 1)", 20)
        out.append(a)
        a = ex.stepper.Diffusion(d, L, n, dt, diffusivity=0.05)(u1)
        b = gen.GeneralLinearStepper(d, L, n, dt, linear_coefficients=(0.0, 0.0, 0.05))(u1)
        agree(a, b, "Diffusion vs GeneralLinearStepper((0, 0, nu))", 20)
        out.append(a)
        a = ex.stepper.Dispersion(d, L, n, dt, dispersivity=0.3)(u1)
        b = gen.GeneralLinearStepper(d, L, n, dt, linear_coefficients=(0.0, 0.0, 0.0, 0.3))(u1)
        agree(a, b, "Dispersion vs GeneralLinearStepper((0, 0, 0, xi))", 20)
        out.append(a)
        a = ex.stepper.HyperDiffusion(d, L, n, dt, hyper_diffusivity=0.002)(u1)
        b = gen.GeneralLinearStepper(d, L, n, dt, linear_coefficients=(0.0, 0.0, 0.0, 0.0, -0.002))(u1)
        agree(a, b, "HyperDiffusion vs GeneralLinearStepper((0, 0, 0, 0, -zeta))", 20)
        out.append(a)
        return out

    for d, n in ((1, 16), (1, 15), (2, 9)):
        add(f"model:C13:specific-vs-generic[D={d},N={n}]", lambda pool, d=d, n=n: _specific_vs_generic(pool, d, n), ["exponax.stepper.Burgers", "exponax.stepper.generic.GeneralConvectionStepper"], f"generic{d}", cost=4)

    def _conversions(pool):
        out = []
        for L, dt, d, n in ((_L, _DT, 2, 24), (1.0, 0.1, 1, 48), (2.0, 0.01, 3, 16)):
            coefs = (0.1, -0.4, 0.02, 0.003)
            nc = gen.normalize_coefficients(coefs, domain_extent=L, dt=dt)
            agree(jnp.asarray(nc), jnp.asarray([a * dt / L**j for j, a in enumerate(coefs)]), "normalize_coefficients vs alpha_j = a_j dt / L^j", 4)
            agree(jnp.asarray(gen.denormalize_coefficients(nc, domain_extent=L, dt=dt)), jnp.asarray(coefs), "denormalize(normalize(a)) vs a", 4)
            dc = gen.reduce_normalized_coefficients_to_difficulty(nc, num_spatial_dims=d, num_points=n)
            agree(jnp.asarray(gen.extract_normalized_coefficients_from_difficulty(dc, num_spatial_dims=d, num_points=n)), jnp.asarray(nc), "extract(reduce(alpha)) vs alpha", 4)
            for norm, denorm, red, ext in (
                (gen.normalize_convection_scale, gen.denormalize_convection_scale, gen.reduce_normalized_convection_scale_to_difficulty, gen.extract_normalized_convection_scale_from_difficulty),
                (gen.normalize_gradient_norm_scale, gen.denormalize_gradient_norm_scale, gen.reduce_normalized_gradient_norm_scale_to_difficulty, gen.extract_normalized_gradient_norm_scale_from_difficulty),
            ):
                a = norm(0.7, domain_extent=L, dt=dt)
                agree(jnp.asarray(denorm(a, domain_extent=L, dt=dt)), jnp.asarray(0.7), f"{denorm.__name__}({norm.__name__}(x)) vs x", 4)
                b = red(a, num_spatial_dims=d, num_points=n, maximum_absolute=1.5)
                agree(jnp.asarray(ext(b, num_spatial_dims=d, num_points=n, maximum_absolute=1.5)), jnp.asarray(a), f"{ext.__name__}({red.__name__}(x)) vs x", 4)
            p = gen.normalize_polynomial_scales((0.0, 1.0, -2.0), domain_extent=L, dt=dt)
            agree(jnp.asarray(gen.denormalize_polynomial_scales(p, domain_extent=L, dt=dt)), jnp.asarray((0.0, 1.0, -2.0)), "denormalize_polynomial_scales(normalize) vs identity", 4)
            out.append([float(x) for x in nc] + [float(x) for x in dc])
        return out

    add("model:C13:conversions", _conversions, [f"exponax.stepper.generic.{n_}" for n_ in gen.__all__ if n_[0].islower()], "misc", cost=1)


def add_model_ops_2(cat, Op):  # noqa: C901
    """Second batch: forcing (C12), invariants (C09-C11), derivatives (C07), utilities (C04, C05, C15, C16, C17), ICs (C18)."""
    import equinox as eqx
    import jax
    import jax.numpy as jnp

    import exponax as ex
    from workload import _field

    def add(key, fn, exports, group, cost=2, atomic=False):
        cat.add(Op(key, fn, tuple(exports), group, cost=cost, atomic=atomic))

    def grid_np(d, L, n):
        return np.stack(np.meshgrid(*[np.arange(n) * (L / n) for _ in range(d)], indexing="ij"))

    # ------------------------------------------------------------------ C12: laminar Kolmogorov solution from rest
    # From rest the flow stays a unidirectional shear, the convection vanishes identically, and every mode obeys
    # u' = sigma u + f with constant f, which every ETDRK order integrates exactly: u(n dt) = f (exp(sigma n dt) - 1) / sigma.
    for L, n, k, gamma, order in ((2 * math.pi, 16, 2, 1.0, 2), (3.0, 16, 2, 0.7, 2), (3.0, 15, 3, 1.0, 4), (1.0, 16, 1, 1.5, 1), (3.0, 16, 3, 1.0, 3)):

        def _lam2(pool, L=L, n=n, k=k, gamma=gamma, order=order):
            nu, lam, dt, steps = 0.05, -0.1, 0.1, 3
            s = ex.stepper.KolmogorovFlowVorticity(2, L, n, dt, diffusivity=nu, drag=lam, injection_mode=k, injection_scale=gamma, order=order)
            got = ex.repeat(s, steps)(jnp.zeros((1, n, n)))
            kappa = k * 2 * math.pi / L
            sigma = lam - nu * kappa**2
            x1 = grid_np(2, L, n)[1]
            want = (-kappa * gamma * np.cos(kappa * x1) * (math.exp(sigma * steps * dt) - 1.0) / sigma)[None]
            agree(got, want, f"2D Kolmogorov vorticity from rest (L={L:.3g}, N={n}, k={k}, gamma={gamma}, order={order}) vs laminar solution with forcing -k(2pi/L) gamma cos(k(2pi/L) x1)", 20)
            return got

        add(f"model:C12:laminar-vorticity[L={L:.3g},N={n},k={k},gamma={gamma},order={order}]", _lam2, ["exponax.stepper.KolmogorovFlowVorticity"], "forcing2", cost=3)

    for L, n, k, gamma, order in ((2 * math.pi, 8, 1, 1.0, 2), (3.0, 8, 2, 0.7, 2), (3.0, 9, 2, 1.0, 4)):

        def _lam3(pool, L=L, n=n, k=k, gamma=gamma, order=order):
            nu, lam, dt, steps = 0.05, -0.1, 0.1, 3
            s = ex.stepper.KolmogorovFlowVelocity(3, L, n, dt, diffusivity=nu, drag=lam, injection_mode=k, injection_scale=gamma, order=order)
            got = ex.repeat(s, steps)(jnp.zeros((3, n, n, n)))
            kappa = k * 2 * math.pi / L
            sigma = lam - nu * kappa**2
            x1 = grid_np(3, L, n)[1]
            want = np.zeros((3, n, n, n))
            want[0] = gamma * np.sin(kappa * x1) * (math.exp(sigma * steps * dt) - 1.0) / sigma
            agree(got, want, f"3D Kolmogorov velocity from rest (L={L:.3g}, N={n}, k={k}, gamma={gamma}, order={order}) vs laminar solution with forcing gamma sin(k(2pi/L) x1) on channel 0", 20)
            return got

        add(f"model:C12:laminar-velocity[L={L:.3g},N={n},k={k},gamma={gamma},order={order}]", _lam3, ["exponax.stepper.KolmogorovFlowVelocity"], "forcing3", cost=4)

    # ------------------------------------------------------------------ C09: conservation along histories of steps
    def mean_of(u, d):
        return np.asarray(jnp.mean(u, axis=tuple(range(1, d + 1))), dtype=np.float64)

    conservative = [
        ("Advection", lambda d, n, o: ex.stepper.Advection(d, _L, n, _DT), (1, 2, 3)),
        ("Diffusion", lambda d, n, o: ex.stepper.Diffusion(d, _L, n, _DT), (1, 2)),
        ("Dispersion", lambda d, n, o: ex.stepper.Dispersion(d, _L, n, _DT), (1, 2)),
        ("HyperDiffusion", lambda d, n, o: ex.stepper.HyperDiffusion(d, _L, n, _DT), (1, 2)),
        ("Burgers-conservative", lambda d, n, o: ex.stepper.Burgers(d, _L, n, _DT, conservative=True, order=o), (1, 2)),
        ("Burgers-1d", lambda d, n, o: ex.stepper.Burgers(1, _L, n, _DT, order=o), (1,)),
        ("Burgers-single-channel", lambda d, n, o: ex.stepper.Burgers(d, _L, n, _DT, single_channel=True, conservative=True, order=o), (2,)),
        ("KdV-1d", lambda d, n, o: ex.stepper.KortewegDeVries(1, _L, n, _DT, order=o), (1,)),
        ("KS-conservative-1d", lambda d, n, o: ex.stepper.KuramotoSivashinskyConservative(1, _L, n, _DT, order=o), (1,)),
        ("CahnHilliard", lambda d, n, o: ex.stepper.reaction.CahnHilliard(d, _L, n, 0.001, order=o), (1, 2)),
        ("NavierStokesVorticity", lambda d, n, o: ex.stepper.NavierStokesVorticity(2, _L, n, _DT, order=o), (2,)),
        ("NavierStokesVelocity", lambda d, n, o: ex.stepper.NavierStokesVelocity(3, _L, n, _DT, order=o), (3,)),
    ]
    sizes = {1: (16, 15, 12), 2: (8, 9, 12), 3: (6,)}
    for cname, mk, dims in conservative:
        for d in dims:
            for n in sizes[d]:
                for order in ((2,) if cname in ("Advection", "Diffusion", "Dispersion", "HyperDiffusion") or d == 3 else (1, 2, 4)):

                    def _mean(pool, mk=mk, d=d, n=n, order=order, cname=cname):
                        s = mk(d, n, order)
                        u = _field(s.num_channels, d, n) * 0.5
                        if d == 3 and s.num_channels == 3:
                            # the velocity formulation conserves momentum for the states it is meant for: solenoidal ones
                            u = ex.spectral.make_incompressible(u)
                        m0 = mean_of(u, d)
                        for i in range(4):
                            u = s(u)
                            scale = float(jnp.max(jnp.abs(u))) + 1e-30
                            agree(mean_of(u, d), m0, f"{cname} D={d} N={n} order={order}: spatial mean after step {i + 1} vs initial mean", 10, absolute=10 * _tol() * scale)
                        return u

                    add(f"model:C09:mean[{cname},D={d},N={n},order={order}]", _mean, ["exponax.stepper"], f"conserve{d}", cost=3 if d == 3 else 2)

    def _no_work(pool, d, n, conservative_form):
        nf = ex.nonlin_fun
        dop = ex.spectral.build_derivative_operator(d, _L, n)
        out = []
        if d == 1:
            f = nf.ConvectionNonlinearFun(1, n, derivative_operator=dop, dealiasing_fraction=2 / 3, conservative=conservative_form)
            uh = ex.fft(_field(1, 1, n), num_spatial_dims=1) * f.dealiasing_mask
            u = ex.ifft(uh, num_spatial_dims=1, num_points=n)
            N = ex.ifft(f(uh), num_spatial_dims=1, num_points=n)
            work = float(jnp.sum(u * N))
            ref = float(jnp.sqrt(jnp.sum(u * u) * jnp.sum(N * N))) + 1e-30
            if abs(work) > 50 * _tol() * ref:
                raise ModelMismatch(f"1D convection (conservative={conservative_form}), N={n}: work <u, N(u)> / (|u||N|) = {work / ref:.3e} on a band-truncated state, expected 0")
            out.append(N)
        else:
            f = nf.VorticityConvection2d(2, n, derivative_operator=dop, dealiasing_fraction=2 / 3)
            wh = ex.fft(_field(1, 2, n), num_spatial_dims=2) * f.dealiasing_mask
            wh = wh.at[(0,) * 3].set(0.0)
            w = ex.ifft(wh, num_spatial_dims=2, num_points=n)
            N = ex.ifft(f(wh), num_spatial_dims=2, num_points=n)
            psi = ex.poisson.Poisson(2, _L, n)(w)  # Laplace(psi) = -w
            for name, a in (("enstrophy", w), ("energy", psi)):
                work = float(jnp.sum(a * N))
                ref = float(jnp.sqrt(jnp.sum(a * a) * jnp.sum(N * N))) + 1e-30
                if abs(work) > 50 * _tol() * ref:
                    raise ModelMismatch(f"2D vorticity convection, N={n}: {name} production / norm = {work / ref:.3e} on a band-truncated state, expected 0")
            out.append(N)
        return out

    for n in (12, 15, 16, 18, 24):
        for cf in (False, True):
            add(f"model:C09:no-work[D=1,N={n},conservative={cf}]", lambda pool, n=n, cf=cf: _no_work(pool, 1, n, cf), ["exponax.nonlin_fun.ConvectionNonlinearFun"], "conserve1", cost=1)
    for n in (8, 9, 12):
        add(f"model:C09:no-work[D=2,N={n}]", lambda pool, n=n: _no_work(pool, 2, n, None), ["exponax.nonlin_fun.VorticityConvection2d"], "conserve2", cost=2)

    def _equilibria(pool):
        out = []
        for name, s, c in (
            ("Burgers", ex.stepper.Burgers(1, _L, 16, _DT), 0.7),
            ("KdV", ex.stepper.KortewegDeVries(1, _L, 15, _DT), -0.4),
            ("FisherKPP u=1", ex.stepper.reaction.FisherKPP(1, _L, 16, _DT), 1.0),
            ("FisherKPP u=0", ex.stepper.reaction.FisherKPP(1, _L, 16, _DT), 0.0),
            ("AllenCahn u=1", ex.stepper.reaction.AllenCahn(1, _L, 16, 0.001), 1.0),
            ("Burgers2d", ex.stepper.Burgers(2, _L, 8, _DT), 0.3),
        ):
            u = jnp.full((s.num_channels,) + (s.num_points,) * s.num_spatial_dims, c)
            v = ex.repeat(s, 3)(u)
            agree(v, u, f"{name}: a spatially constant equilibrium ({c}) is a fixed point", 20, absolute=20 * _tol())
            out.append(v)
        return out

    add("model:C09:constant-equilibria", _equilibria, ["exponax.stepper"], "conserve1", cost=3)

    # ------------------------------------------------------------------ C10: incompressibility
    def _div_hat(uh, d, n, L):
        dop = ex.spectral.build_derivative_operator(d, L, n)
        return jnp.sum(dop * uh, axis=0)

    def _incompressible(pool, d, n):
        nf = ex.nonlin_fun
        dop = ex.spectral.build_derivative_operator(d, _L, n)
        v = bl_field(d, d, n) * np.asarray([1.0, -0.6, 0.8][:d]).reshape((d,) + (1,) * d)
        vh = ex.fft(v, num_spatial_dims=d)
        scale = float(jnp.max(jnp.abs(vh))) * float(jnp.max(jnp.abs(dop)))
        p = ex.spectral.make_incompressible(v)
        ph = ex.fft(p, num_spatial_dims=d)
        ler = nf.Leray(d, n, derivative_operator=dop)
        lh = ler(vh)
        agree(_div_hat(ph, d, n, _L), jnp.zeros_like(ph[0]), "spectral divergence of make_incompressible(v)", 1, absolute=50 * _tol() * scale)
        agree(_div_hat(lh, d, n, _L), jnp.zeros_like(ph[0]), "spectral divergence of Leray(v)", 1, absolute=50 * _tol() * scale)
        agree(ex.ifft(lh, num_spatial_dims=d, num_points=n), p, "Leray projection vs make_incompressible", 20)
        agree(ex.spectral.make_incompressible(p), p, "make_incompressible is idempotent", 20)
        agree(ler(lh), lh, "Leray is idempotent", 20)
        return p

    for d, n in ((2, 8), (2, 9), (3, 6), (3, 5)):
        add(f"model:C10:projection[D={d},N={n}]", lambda pool, d=d, n=n: _incompressible(pool, d, n), ["exponax.spectral", "exponax.nonlin_fun.Leray"], f"incompressible{d}", cost=2)

    for cls_name, n, order in (("NavierStokesVelocity", 6, 2), ("NavierStokesVelocity", 5, 4), ("KolmogorovFlowVelocity", 6, 2), ("KolmogorovFlowVelocity", 5, 1)):

        def _ns_div(pool, cls_name=cls_name, n=n, order=order):
            kw = {"injection_mode": 1} if "Kolmogorov" in cls_name else {}
            s = getattr(ex.stepper, cls_name)(3, _L, n, _DT, order=order, **kw)
            u = ex.spectral.make_incompressible(bl_field(3, 3, n) * np.asarray([1.0, -0.6, 0.8]).reshape(3, 1, 1, 1))
            dop = ex.spectral.build_derivative_operator(3, _L, n)
            for i in range(3):
                u = s(u)
                uh = ex.fft(u, num_spatial_dims=3)
                scale = float(jnp.max(jnp.abs(uh))) * float(jnp.max(jnp.abs(dop))) + 1e-30
                agree(jnp.sum(dop * uh, axis=0), jnp.zeros_like(uh[0]), f"{cls_name} N={n} order={order}: spectral divergence after step {i + 1}", 1, absolute=100 * _tol() * scale)
            return u

        add(f"model:C10:stepper-keeps-divergence-free[{cls_name},N={n},order={order}]", _ns_div, [f"exponax.stepper.{cls_name}"], "incompressible3", cost=4)

    # ------------------------------------------------------------------ C11: no amplification
    lin11 = [
        ("Advection", lambda d, n, dt: ex.stepper.Advection(d, _L, n, dt), True),
        ("Diffusion", lambda d, n, dt: ex.stepper.Diffusion(d, _L, n, dt), False),
        ("AdvectionDiffusion", lambda d, n, dt: ex.stepper.AdvectionDiffusion(d, _L, n, dt), False),
        ("Dispersion", lambda d, n, dt: ex.stepper.Dispersion(d, _L, n, dt), True),
        ("HyperDiffusion", lambda d, n, dt: ex.stepper.HyperDiffusion(d, _L, n, dt), False),
        ("GeneralLinear", lambda d, n, dt: ex.stepper.generic.GeneralLinearStepper(d, _L, n, dt, linear_coefficients=(0.0, -0.3, 0.02, 0.5, -0.001)), False),
        # symmetric positive definite diffusion tensors with strong off-diagonal correlation (0.9): still dissipative
        ("Diffusion-full-matrix", lambda d, n, dt: ex.stepper.Diffusion(d, _L, n, dt, diffusivity=jnp.asarray(np.asarray([[0.05, 0.045, 0.0], [0.045, 0.05, 0.0], [0.0, 0.0, 0.03]])[:d, :d])), False),
        ("AdvectionDiffusion-full-matrix", lambda d, n, dt: ex.stepper.AdvectionDiffusion(d, _L, n, dt, velocity=jnp.asarray([0.7, -0.4, 1.3][:d]), diffusivity=jnp.asarray(np.asarray([[0.05, -0.045, 0.0], [-0.045, 0.05, 0.01], [0.0, 0.01, 0.03]])[:d, :d])), False),
    ]
    for lname, mk, unitary in lin11:
        for d, n in ((1, 16), (1, 15), (2, 8), (2, 9), (3, 6)):
            if "full-matrix" in lname and d == 1:
                continue

            def _norm(pool, mk=mk, d=d, n=n, unitary=unitary, lname=lname):
                out = []
                for dt in (_DT, 3.0, 400.0):
                    s = mk(d, n, dt)
                    u = _field(1, d, n)  # broadband, Nyquist content included
                    n0 = float(jnp.sqrt(jnp.sum(u.astype(jnp.float64 if jax.config.jax_enable_x64 else jnp.float32) ** 2)))
                    for i in range(3):
                        v = s(u)
                        n1 = float(jnp.sqrt(jnp.sum(v * v)))
                        if not np.isfinite(n1) or n1 > n0 * (1 + 20 * _tol()):
                            raise ModelMismatch(f"{lname} D={d} N={n} dt={dt}: L2 norm grew from {n0:.9g} to {n1:.9g} in step {i + 1}")
                        if unitary and n % 2 == 1 and abs(n1 - n0) > 20 * _tol() * n0:
                            raise ModelMismatch(f"{lname} D={d} N={n} (odd grid) dt={dt}: L2 norm changed from {n0:.9g} to {n1:.9g}")
                        u, n0 = v, n1
                    out.append(u)
                return out

            add(f"model:C11:norm[{lname},D={d},N={n}]", _norm, ["exponax.stepper"], f"linear{d}", cost=3 if d == 3 else 2)

    # ------------------------------------------------------------------ C07: derivatives vs central finite differences (float64 session only)
    def _fd(pool, which):
        if not jax.config.jax_enable_x64:
            return "float32 session: finite differences not meaningful"
        n = 16
        u = bl_field(1, 1, n) * 0.5
        t = bl_field(1, 1, n, variant=3) * 0.3
        out = []

        def check(f, p, name):
            tang = jnp.ones_like(jnp.asarray(p)) if jnp.ndim(p) == 0 else jnp.ones_like(p)
            jv = jax.jvp(f, (jnp.asarray(p),), (tang,))[1]
            h = 1e-6
            fd = (f(jnp.asarray(p) + h * tang) - f(jnp.asarray(p) - h * tang)) / (2 * h)
            agree(jv, fd, f"{which}: forward-mode derivative w.r.t. {name} vs central finite differences", 1e5, absolute=1e-7)
            g = jax.grad(lambda q: jnp.sum(f(q) * t))(jnp.asarray(p))
            agree(jnp.sum(g * tang), jnp.sum(jv * t), f"{which}: reverse mode vs forward mode (adjoint identity) w.r.t. {name}", 1e3, absolute=1e-10)
            out.append(jv)

        if which == "Burgers":
            for order in (1, 2, 4):
                for nu in (0.05, 0.0):
                    check(lambda p, order=order: ex.stepper.Burgers(1, _L, n, _DT, diffusivity=p, order=order)(u), nu, f"diffusivity at {nu}, order {order}")
                check(lambda p, order=order: ex.stepper.Burgers(1, _L, n, _DT, convection_scale=p, order=order)(u), 1.0, f"convection_scale, order {order}")
                check(lambda p, order=order: ex.stepper.Burgers(1, _L, n, p, order=order)(u), _DT, f"dt, order {order}")
            check(lambda x: ex.stepper.Burgers(1, _L, n, _DT)(x), u, "the state")
            check(lambda x: ex.rollout(ex.stepper.Burgers(1, _L, n, _DT), 3)(x), u, "the state through a rollout")
            check(lambda p: ex.rollout(ex.stepper.Burgers(1, _L, n, _DT, diffusivity=p, order=1), 3)(u), 0.0, "diffusivity at 0 through a rollout, order 1")
        elif which == "reaction":
            for order in (1, 2, 3):
                for r in (0.7, 0.0):
                    check(lambda p, order=order: ex.stepper.reaction.FisherKPP(1, _L, n, _DT, reactivity=p, order=order)(u + 1.0), r, f"FisherKPP reactivity at {r}, order {order}")
                    check(lambda p, order=order: ex.stepper.generic.GeneralPolynomialStepper(1, _L, n, _DT, linear_coefficients=(p, 0.0, 0.01), polynomial_coefficients=(0.0, 0.0, -1.0), order=order)(u + 1.0), r, f"zeroth-order linear coefficient at {r}, order {order}")
        elif which == "linear":
            check(lambda p: ex.stepper.Advection(1, _L, n, _DT, velocity=p * jnp.ones((1,)))(u), 1.0, "velocity")
            check(lambda p: ex.stepper.Dispersion(1, _L, n, _DT, dispersivity=p * jnp.ones((1,)))(u), 0.5, "dispersivity")
            check(lambda p: ex.stepper.generic.GeneralLinearStepper(1, _L, n, _DT, linear_coefficients=(0.0, p, 0.01))(u), -0.3, "a generic coefficient")
            s = ex.stepper.Diffusion(1, _L, n, _DT)
            J = jax.jacfwd(s)(u).reshape(n, n)
            agree(J @ t.reshape(n), s(t).reshape(n), "linear stepper: Jacobian applied to t vs the stepper applied to t", 100)
            out.append(J)
        elif which == "KdV-KS":
            for order in (1, 2, 4):
                check(lambda p, order=order: ex.stepper.KortewegDeVries(1, _L, n, _DT, dispersivity=p, order=order)(u), 1.0, f"KdV dispersivity, order {order}")
                check(lambda p, order=order: ex.stepper.KuramotoSivashinsky(1, _L, n, _DT, second_order_scale=p, order=order)(u), 1.0, f"KS second_order_scale, order {order}")
        return out

    for which in ("Burgers", "reaction", "linear", "KdV-KS"):
        add(f"model:C07:finite-differences[{which}]", lambda pool, which=which: _fd(pool, which), ["exponax.stepper"], "derivatives", cost=5)

    # ------------------------------------------------------------------ utilities: cheap exact relations (C04, C05, C15, C16, C17)
    def _util(pool, d, n):
        out = []
        u = _field(2, d, n)
        ub = bl_field(2, d, n)
        uh = ex.fft(u, num_spatial_dims=d)
        agree(ex.ifft(uh, num_spatial_dims=d, num_points=n), u, "ifft(fft(u)) vs u", 10)
        g = np.asarray(ex.make_grid(d, _L, n), dtype=np.float64)
        agree(g, grid_np(d, _L, n), "make_grid vs j L / N (left-inclusive, right-exclusive)", 4)
        out.append(uh)
        return out

    for d, n in ((1, 16), (1, 15), (2, 8), (2, 9), (3, 6), (3, 5)):
        add(f"model:C04:fft-grid[D={d},N={n}]", lambda pool, d=d, n=n: _util(pool, d, n), ["exponax.fft", "exponax.ifft", "exponax.make_grid"], f"fine{d}", cost=1)

    def _deriv(pool, d, n, L):
        K = (n - 1) // 2
        x = grid_np(d, L, n)
        m = [K, 1, 2][:d]
        phase = sum(2 * math.pi * m[a] * x[a] / L for a in range(d)) + 0.3
        u = jnp.asarray(np.sin(phase)[None], dtype=jnp.zeros(()).dtype)
        out = []
        for order in (1, 2, 3):
            got = ex.derivative(u, L, order=order)
            fn = [np.cos, lambda p: -np.sin(p), lambda p: -np.cos(p)][order - 1]
            want = np.stack([(2 * math.pi * m[a] / L) ** order * fn(phase) for a in range(d)])[None]
            agree(got.reshape(want.shape) if got.size == want.size else got, want, f"derivative(order={order}) of sin(k.x) on D={d}, N={n}, L={L} vs analytic partial derivatives", 100)
            out.append(got)
        f = jnp.asarray((np.sin(phase) + 0.5)[None], dtype=jnp.zeros(()).dtype)
        k2 = sum((2 * math.pi * m[a] / L) ** 2 for a in range(d))
        sol = ex.poisson.Poisson(d, L, n)(f)
        agree(sol, (np.sin(phase) / k2)[None], "Poisson solver vs the zero-mean field whose Laplacian is minus the zero-mean part of f", 100)
        out.append(sol)
        return out

    for d, n in ((1, 16), (1, 15), (2, 8), (2, 9), (3, 6), (3, 5)):
        for L in (3.0, 1.0):
            add(f"model:C05:trig-derivative[D={d},N={n},L={L}]", lambda pool, d=d, n=n, L=L: _deriv(pool, d, n, L), ["exponax.derivative", "exponax.poisson"], f"fine{d}", cost=1)

    def _resample(pool, d, n, n2):
        ub = bl_field(2, d, n)
        up = ex.map_between_resolutions(ub, n2)
        x2 = np.indices((n2,) * d).astype(np.float64)
        want = np.zeros((2,) + (n2,) * d)
        for ch in range(2):
            for j, m in enumerate(bl_modes(d, n)):
                phase = sum(m[a] * x2[a] for a in range(d)) * (2.0 * math.pi / n2)
                want[ch] += np.cos(phase + 0.3 * j + 0.7 * ch) / (1.0 + 0.5 * j)
            want[ch] += 0.2 * (ch + 1)
        agree(up, want, f"map_between_resolutions {n}->{n2} of a band-limited state vs the same function sampled on the finer grid", 40)
        agree(ex.map_between_resolutions(up, n), ub, f"mapping {n}->{n2}->{n} vs the original", 40)
        rough = _field(2, d, n)
        for target in (n2, max(3, n - 3)):
            agree(jnp.mean(ex.map_between_resolutions(rough, target), axis=tuple(range(1, d + 1))), jnp.mean(rough, axis=tuple(range(1, d + 1))), f"mean after {n}->{target} vs mean before", 40)
        fi = ex.FourierInterpolator(ub, domain_extent=_L)
        pts = grid_np(d, _L, n).reshape(d, -1).T[:: max(1, n ** (d - 1))]
        agree(jax.vmap(fi)(jnp.asarray(pts)), jnp.asarray(np.asarray(ub).reshape(2, -1).T[:: max(1, n ** (d - 1))]), "FourierInterpolator at the state's own grid points vs the state", 100)
        return up

    for d, n, n2 in ((1, 16, 24), (1, 15, 20), (1, 16, 17), (2, 8, 12), (2, 9, 12), (3, 6, 8)):
        add(f"model:C15:resample[D={d},{n}->{n2}]", lambda pool, d=d, n=n, n2=n2: _resample(pool, d, n, n2), ["exponax.map_between_resolutions", "exponax.FourierInterpolator"], f"fine{d}", cost=2)

    def _metrics(pool, d, n):
        m = ex.metrics
        a, b = _field(2, d, n), _field(2, d, n, 1)
        out = []
        for sp_, fo_ in ((m.MSE, m.fourier_MSE), (m.RMSE, m.fourier_RMSE), (m.nMSE, m.fourier_nMSE), (m.nRMSE, m.fourier_nRMSE)):
            x, y = sp_(a, b, domain_extent=_L), fo_(a, b, domain_extent=_L)
            agree(y, x, f"{fo_.__name__} vs {sp_.__name__} (Parseval)", 40)
            out.append(x)
        agree(m.MSE(a, a, domain_extent=_L), jnp.zeros(()), "MSE(a, a)", 1, absolute=1e-12)
        agree(m.MSE(b, a, domain_extent=_L), m.MSE(a, b, domain_extent=_L), "MSE symmetry", 4)
        agree(m.MSE(a, b, domain_extent=2 * _L), (2.0**d) * m.MSE(a, b, domain_extent=_L), "MSE scales with L^D", 10)
        agree(m.MSE(a, b, domain_extent=_L), m.MSE(a[:1], b[:1], domain_extent=_L) + m.MSE(a[1:], b[1:], domain_extent=_L), "MSE splits additively over channels", 10)
        agree(m.MSE(3.0 * a, 3.0 * b, domain_extent=_L), 9.0 * m.MSE(a, b, domain_extent=_L), "MSE homogeneity", 10)
        agree(m.nRMSE(3.0 * a, 3.0 * b, domain_extent=_L), m.nRMSE(a, b, domain_extent=_L), "nRMSE is scale-free", 10)
        agree(m.correlation(a, 2.5 * a), jnp.ones(()), "correlation(a, 2.5 a)", 10)
        agree(m.correlation(a, -0.5 * a), -jnp.ones(()), "correlation(a, -0.5 a)", 10)
        K = n // 2
        full = m.fourier_MSE(a, b, domain_extent=_L)
        parts = m.fourier_MSE(a, b, domain_extent=_L, low=0, high=1) + m.fourier_MSE(a, b, domain_extent=_L, low=2, high=K + n)
        agree(parts, full, "fourier_MSE splits additively over disjoint bands", 40)
        return out

    for d, n in ((1, 16), (1, 15), (2, 8), (2, 9), (3, 6)):
        add(f"model:C16:metric-relations[D={d},N={n}]", lambda pool, d=d, n=n: _metrics(pool, d, n), [f"exponax.metrics.{x}" for x in ("MSE", "fourier_MSE", "nRMSE", "correlation")], f"fine{d}", cost=2)

    def _spectrum(pool, d, n):
        K = (n - 1) // 2
        x = np.indices((n,) * d).astype(np.float64) * (2 * math.pi / n)
        out = []
        for m, amp in (([1, 0, 0][:d], 0.7), ([K, 0, 0][:d], 1.3), ([1, 1, 1][:d], 0.4), ([2, -1, 0][:d], 0.9)):
            if d == 1 and any(m[1:]):
                continue
            phase = sum(m[a] * x[a] for a in range(d)) + 0.4
            u = jnp.asarray((amp * np.cos(phase))[None], dtype=jnp.zeros(()).dtype)
            r = math.sqrt(sum(c * c for c in m))
            b = int(math.floor(r + 0.5))
            got = ex.get_spectrum(u, power=False)
            want = np.zeros((1, n // 2 + 1))
            if b <= n // 2:
                want[0, b] = amp
            agree(got, want, f"amplitude spectrum of {amp} cos(k.x), k={m}, D={d}, N={n}: expected {amp} in bin {b}", 40, absolute=40 * _tol())
            out.append(got)
        rough = _field(2, d, n)
        s_sum = ex.get_spectrum(rough, power=True, radial_binning="sum")
        if d == 1:
            agree(jnp.sum(s_sum, axis=-1), 0.5 * jnp.mean(rough * rough, axis=-1), "1D: summed power spectrum vs half the mean square (Parseval)", 40)
        agree(ex.get_spectrum(rough[1:], power=True), s_sum[1:], "channels are treated independently", 10)
        out.append(s_sum)
        return out

    for d, n in ((1, 16), (1, 15), (2, 8), (2, 9), (3, 6)):
        add(f"model:C17:single-modes[D={d},N={n}]", lambda pool, d=d, n=n: _spectrum(pool, d, n), ["exponax.get_spectrum"], f"fine{d}", cost=2)

    # ------------------------------------------------------------------ C18: documented options of the generators
    def _ic_contract(pool, d):
        import jax.random as jr

        ic = ex.ic
        n = {1: 32, 2: 16, 3: 8}[d]
        out = []
        axes = tuple(range(1, d + 1))
        for name, gen, checks in (
            ("GaussianRandomField(zero_mean, std_one)", ic.GaussianRandomField(d, domain_extent=_L, zero_mean=True, std_one=True), ("mean0", "std1")),
            ("GaussianRandomField(max_one)", ic.GaussianRandomField(d, domain_extent=_L, max_one=True), ("max1",)),
            ("DiffusedNoise(zero_mean, std_one)", ic.DiffusedNoise(d, domain_extent=_L, zero_mean=True, std_one=True), ("mean0", "std1")),
            ("DiffusedNoise(max_one), tiny intensity", ic.DiffusedNoise(d, domain_extent=_L, intensity=1e-6, max_one=True), ("max1",)),
            ("RandomTruncatedFourierSeries(max_one)", ic.RandomTruncatedFourierSeries(d, cutoff=3, max_one=True), ("max1",)),
            ("RandomTruncatedFourierSeries(std_one)", ic.RandomTruncatedFourierSeries(d, cutoff=3, std_one=True), ("std1",)),
            ("DiffusedNoise(std_one), tiny intensity", ic.DiffusedNoise(d, domain_extent=_L, intensity=1e-7, zero_mean=True, std_one=True), ("mean0", "std1")),
            ("RandomDiscontinuities(zero_mean, std_one)", ic.RandomDiscontinuities(d, domain_extent=_L, zero_mean=True, std_one=True), ("mean0", "std1")),
            ("ClampingICGenerator", ic.ClampingICGenerator(ic.RandomTruncatedFourierSeries(d, cutoff=3), limits=(-0.5, 2.0)), ("clamp",)),
            ("ScaledICGenerator", ic.ScaledICGenerator(ic.RandomTruncatedFourierSeries(d, cutoff=3, max_one=True), 3.0), ("max3",)),
        ):
            for seed in (0, 5):
                u = gen(n, key=jr.PRNGKey(seed))
                if tuple(u.shape) != (1,) + (n,) * d:
                    raise ModelMismatch(f"{name}: shape {u.shape}")
                if not bool(jnp.all(jnp.isfinite(u))):
                    raise ModelMismatch(f"{name}: not finite")
                agree(gen(n, key=jr.PRNGKey(seed)), u, f"{name}: the same key twice", 0.0)
                tol = 50 * _tol()
                if "mean0" in checks:
                    agree(jnp.mean(u, axis=axes), jnp.zeros((1,)), f"{name}: zero mean", 1, absolute=tol * float(jnp.max(jnp.abs(u))))
                if "std1" in checks:
                    agree(jnp.std(u, axis=axes), jnp.ones((1,)), f"{name}: unit standard deviation", 50)
                if "max1" in checks:
                    agree(jnp.max(jnp.abs(u), axis=axes), jnp.ones((1,)), f"{name}: unit maximum", 50)
                if "max3" in checks:
                    agree(jnp.max(jnp.abs(u), axis=axes), 3.0 * jnp.ones((1,)), f"{name}: scale factor", 50)
                if "clamp" in checks:
                    agree(jnp.stack([jnp.min(u), jnp.max(u)]), jnp.asarray([-0.5, 2.0]), f"{name}: clamping limits reached at both ends", 50)
                out.append(u)
        for lo, hi in ((0.5, 0.5), (0.5, 1.5), (-2.0, -1.0)):
            u = ic.RandomTruncatedFourierSeries(d, cutoff=3, offset_range=(lo, hi))(n, key=jr.PRNGKey(4))
            mean = float(jnp.mean(u))
            if not (lo - 50 * _tol() <= mean <= hi + 50 * _tol()):
                raise ModelMismatch(f"RandomTruncatedFourierSeries(offset_range=({lo}, {hi})): mean of the state is {mean:.6g}, outside the requested offset range")
            out.append(u)
        mc = ic.RandomMultiChannelICGenerator((ic.RandomTruncatedFourierSeries(d, cutoff=2), ic.GaussianRandomField(d, domain_extent=_L), ic.WhiteNoise(d)))
        u = mc(n, key=jr.PRNGKey(1))
        if tuple(u.shape) != (3,) + (n,) * d:
            raise ModelMismatch(f"RandomMultiChannelICGenerator: shape {u.shape}, expected one channel per sub-generator")
        cut = ic.RandomTruncatedFourierSeries(d, cutoff=2)(n, key=jr.PRNGKey(2))
        ch = np.asarray(ex.fft(cut, num_spatial_dims=d))
        k = np.asarray(ex.spectral.build_wavenumbers(d, n))
        outside = np.max(np.abs(k), axis=0, keepdims=True) > 2
        agree(ch * outside, np.zeros_like(ch), "RandomTruncatedFourierSeries: Fourier content confined to the cutoff", 1, absolute=50 * _tol() * float(np.max(np.abs(ch))))
        g = ic.RandomGaussianBlobs(d, domain_extent=_L, num_blobs=2)
        agree(g.gen_ic_fun(key=jr.PRNGKey(3))(ex.make_grid(d, _L, n)), g(n, key=jr.PRNGKey(3)), "function form vs sampled form of the same draw", 20)
        out.append(u)
        return out

    for d in (1, 2, 3):
        add(f"model:C18:contract[D={d}]", lambda pool, d=d: _ic_contract(pool, d), ["exponax.ic.GaussianRandomField", "exponax.ic.DiffusedNoise", "exponax.ic.RandomTruncatedFourierSeries"], f"ic{d}", cost=4)


def add_model_ops_3(cat, Op):
    """C02: the ETDRK integrators realise the order-p scheme -- for real *and* complex linear symbols."""
    import jax
    import jax.numpy as jnp

    import exponax as ex

    def add(key, fn, exports, group, cost=2, atomic=False):
        cat.add(Op(key, fn, tuple(exports), group, cost=cost, atomic=atomic))

    symbols = {
        "real(diffusive)": lambda dop: 0.03 * dop**2,
        "complex(advective)": lambda dop: -0.8 * dop + 0.01 * dop**2,
        "complex(dispersive)": lambda dop: 0.05 * dop**3,
        "imaginary(dispersive,no-damping)": lambda dop: -0.4 * dop + 0.02 * dop**3,
    }

    def _reference(lin, nl, uh, T, steps):
        # independent integrator: classical RK4 on the integrating-factor form v = exp(-L t) u_hat of the same
        # semi-discrete system, with a step far below anything the ETDRK runs use
        h = T / steps

        def rhs(t, v):
            return jnp.exp(-lin * t) * nl(jnp.exp(lin * t) * v)

        def body(v, i):
            t = i * h
            k1 = rhs(t, v)
            k2 = rhs(t + h / 2, v + h / 2 * k1)
            k3 = rhs(t + h / 2, v + h / 2 * k2)
            k4 = rhs(t + h, v + h * k3)
            return v + h / 6 * (k1 + 2 * k2 + 2 * k3 + k4), None

        v, _ = jax.lax.scan(body, uh, jnp.arange(steps))
        return jnp.exp(lin * T) * v

    for sname, mk_lin in symbols.items():

        def _order(pool, mk_lin=mk_lin, sname=sname):
            if not jax.config.jax_enable_x64:
                return "float32 session: convergence orders are not resolvable"
            n, L, T = 32, 2 * math.pi, 0.4
            dop = ex.spectral.build_derivative_operator(1, L, n)
            lin = mk_lin(dop)
            nl = ex.nonlin_fun.ConvectionNonlinearFun(1, n, derivative_operator=dop, dealiasing_fraction=2 / 3)
            x = np.arange(n) * L / n
            uh = ex.fft(jnp.asarray((np.sin(x) + 0.5 * np.cos(2 * x + 0.3))[None]), num_spatial_dims=1)
            ref = jax.jit(lambda u: _reference(lin, nl, u, T, 8000))(uh)
            out = [ref]
            agree(ex.etdrk.ETDRK0(T, lin).step_fourier(uh), jnp.exp(lin * T) * uh, "ETDRK0 vs pure linear propagation", 10)
            for p, cls in ((1, ex.etdrk.ETDRK1), (2, ex.etdrk.ETDRK2), (3, ex.etdrk.ETDRK3), (4, ex.etdrk.ETDRK4)):
                errs = []
                for steps in (8, 16, 32):
                    integ = cls(T / steps, lin, nl)
                    got = ex.repeat(integ.step_fourier, steps)(uh)
                    errs.append(float(jnp.max(jnp.abs(got - ref))) / float(jnp.max(jnp.abs(ref))))
                    out.append(got)
                rates = [math.log2(errs[i] / errs[i + 1]) for i in range(2) if errs[i + 1] > 1e-11]
                if rates and min(rates) < p - 0.5:
                    raise ModelMismatch(f"ETDRK{p} with a {sname} symbol: errors {['%.2e' % e for e in errs]} under dt-halving give observed orders {['%.2f' % r for r in rates]}, expected {p}")
            return out

        add(f"model:C02:convergence-order[{sname}]", _order, [f"exponax.etdrk.ETDRK{p}" for p in range(5)], "etdrk", cost=5, atomic=True)

    def _kdv_order(pool):
        if not jax.config.jax_enable_x64:
            return "float32 session: convergence orders are not resolvable"
        n, L, T = 32, 2 * math.pi, 0.05
        x = np.arange(n) * L / n
        u0 = jnp.asarray((np.sin(x) + 0.5 * np.cos(2 * x))[None])
        out = []
        for name, mk in (
            ("KortewegDeVries", lambda dt, p: ex.stepper.KortewegDeVries(1, L, n, dt, order=p)),
            ("Burgers", lambda dt, p: ex.stepper.Burgers(1, L, n, dt, order=p)),
            ("GeneralConvectionStepper(advection+diffusion)", lambda dt, p: ex.stepper.generic.GeneralConvectionStepper(1, L, n, dt, linear_coefficients=(0.0, -0.7, 0.02), order=p)),
        ):
            errs = {}
            for p in (1, 2, 3, 4):
                errs[p] = [ex.repeat(mk(T / steps, p), steps)(u0) for steps in (10, 20, 40)]
            # orders are judged against each other: consecutive refinements of one order must contract like 2^p
            for p in (1, 2, 3):
                d1 = float(jnp.max(jnp.abs(errs[p][0] - errs[p][1])))
                d2 = float(jnp.max(jnp.abs(errs[p][1] - errs[p][2])))
                if d2 > 1e-11 and math.log2(d1 / d2) < p - 0.5:
                    raise ModelMismatch(f"{name} order {p}: successive dt-halvings contract by 2^{math.log2(d1 / d2):.2f}, expected 2^{p}")
            # and the orders must agree with each other increasingly well
            gap12 = float(jnp.max(jnp.abs(errs[2][2] - errs[4][2])))
            gap11 = float(jnp.max(jnp.abs(errs[1][2] - errs[4][2])))
            if gap11 > 1e-9 and gap12 > 0.2 * gap11:
                raise ModelMismatch(f"{name}: order 2 is not closer to order 4 than order 1 is ({gap12:.2e} vs {gap11:.2e}) -- higher orders do not gain accuracy")
            out.append(errs[4][2])
        return out

    add("model:C02:stepper-orders[KdV,Burgers,GeneralConvection]", _kdv_order, ["exponax.stepper.KortewegDeVries", "exponax.stepper.Burgers"], "etdrk", cost=5, atomic=True)

    # ------------------------------------------------------------------ C04: the indexing option
    def _xy(pool, d, n):
        out = []
        for indexing in ("ij", "xy"):
            g = ex.make_grid(d, _L, n, indexing=indexing)
            k = ex.spectral.build_wavenumbers(d, n, indexing=indexing)
            u = jnp.sin(2 * math.pi * g[0] / _L) + jnp.cos(4 * math.pi * g[-1] / _L)
            uh = ex.fft(u[None], num_spatial_dims=d)
            if tuple(k.shape[1:]) != tuple(uh.shape[1:]):
                raise ModelMismatch(f"indexing={indexing!r}: wavenumbers have shape {tuple(k.shape)} but the transform of a grid function has shape {tuple(uh.shape)} -- they do not fit together")
            out += [g, k]
        return out

    for d, n in ((2, 8), (2, 9), (3, 6)):
        add(f"model:C04:indexing-fits[D={d},N={n}]", lambda pool, d=d, n=n: _xy(pool, d, n), ["exponax.make_grid", "exponax.spectral"], f"fine{d}", cost=1)


def add_model_ops_4(cat, Op):
    """C03 (alias-freeness against a finer grid), C08 (symmetries of the periodic box), C19 (finiteness, dtype, zero state)."""
    import jax
    import jax.numpy as jnp

    import exponax as ex
    from workload import _array_leaves, _field

    def add(key, fn, exports, group, cost=2, atomic=False):
        cat.add(Op(key, fn, tuple(exports), group, cost=cost, atomic=atomic))

    # ------------------------------------------------------------------ C03: the same term evaluated on a grid twice as fine
    def _alias_free(pool, n, which):
        nf = ex.nonlin_fun
        frac = 0.5 if which == "polynomial-cubic" else 2 / 3

        def make(nn, fr):
            dop = ex.spectral.build_derivative_operator(1, _L, nn)
            if which == "convection":
                return nf.ConvectionNonlinearFun(1, nn, derivative_operator=dop, dealiasing_fraction=fr)
            if which == "convection-conservative":
                return nf.ConvectionNonlinearFun(1, nn, derivative_operator=dop, dealiasing_fraction=fr, conservative=True)
            if which == "gradient-norm":
                return nf.GradientNormNonlinearFun(1, nn, derivative_operator=dop, dealiasing_fraction=fr)
            if which == "general":
                return nf.GeneralNonlinearFun(1, nn, derivative_operator=dop, dealiasing_fraction=fr, scale_list=(0.3, -1.0, 0.2))
            return nf.PolynomialNonlinearFun(1, nn, dealiasing_fraction=fr, coefficients=(0.0, 1.0, -1.0, 0.5))

        coarse, fine = make(n, frac), make(2 * n, frac / 2)
        uh = ex.fft(_field(1, 1, n), num_spatial_dims=1) * coarse.dealiasing_mask
        kept = int(np.max(np.nonzero(np.asarray(coarse.dealiasing_mask)[0])[0]))
        uh_fine = jnp.zeros((1, n + 1), dtype=uh.dtype).at[:, : kept + 1].set(2.0 * uh[:, : kept + 1])
        got = coarse(uh)
        want = fine(uh_fine)[:, : n // 2 + 1] / 2.0
        want = want.at[:, kept + 1 :].set(0.0)
        agree(got, want, f"{which}, N={n}: term on the retained band (|k| <= {kept}) vs the same term evaluated on a grid twice as fine; zero outside the band", 40)
        return got

    for which in ("convection", "convection-conservative", "gradient-norm", "general", "polynomial-cubic"):
        for n in (12, 15, 16, 18, 24):
            add(f"model:C03:alias-free[{which},N={n}]", lambda pool, n=n, which=which: _alias_free(pool, n, which), ["exponax.nonlin_fun"], "fine1", cost=1)

    # ------------------------------------------------------------------ C08: symmetries
    def _symmetry(pool, name):
        out = []
        if name == "translation":
            for label, s in (
                ("Burgers 2D N=9", ex.stepper.Burgers(2, _L, 9, _DT)), ("KS 2D N=8", ex.stepper.KuramotoSivashinsky(2, _L, 8, _DT)),
                ("KdV 1D N=16", ex.stepper.KortewegDeVries(1, _L, 16, _DT)), ("NavierStokesVorticity N=8", ex.stepper.NavierStokesVorticity(2, _L, 8, _DT)),
                ("Diffusion 3D N=6", ex.stepper.Diffusion(3, _L, 6, _DT)), ("GrayScott 1D", ex.stepper.reaction.GrayScott(1, _L, 16, _DT)),
            ):  # fmt: skip
                d = s.num_spatial_dims
                u = _field(s.num_channels, d, s.num_points) * 0.5
                shift = (2, 3, 1)[:d]
                axes = tuple(range(1, d + 1))
                got = s(jnp.roll(u, shift, axis=axes))
                agree(got, jnp.roll(s(u), shift, axis=axes), f"{label}: step of the translated state vs translated step", 20)
                out.append(got)
        elif name == "axis-permutation":
            for label, s, vector in (
                ("KS 2D N=9", ex.stepper.KuramotoSivashinsky(2, _L, 9, _DT), False), ("Diffusion 2D N=8", ex.stepper.Diffusion(2, _L, 8, _DT), False),
                ("FisherKPP 2D N=8", ex.stepper.reaction.FisherKPP(2, _L, 8, _DT), False), ("Burgers 2D N=9", ex.stepper.Burgers(2, _L, 9, _DT), True),
                ("KdV 2D N=9", ex.stepper.KortewegDeVries(2, _L, 9, _DT), True),
            ):  # fmt: skip
                u = _field(s.num_channels, 2, s.num_points) * 0.5
                perm = (lambda a: a[::-1].transpose(0, 2, 1)) if vector else (lambda a: a.transpose(0, 2, 1))
                got = s(perm(u))
                agree(got, perm(s(u)), f"{label}: step of the axis-permuted state vs permuted step", 20)
                out.append(got)
        else:
            for label, s2, s1 in (
                ("Diffusion", ex.stepper.Diffusion(2, _L, 16, _DT), ex.stepper.Diffusion(1, _L, 16, _DT)),
                ("KS", ex.stepper.KuramotoSivashinsky(2, _L, 16, _DT), ex.stepper.KuramotoSivashinsky(1, _L, 16, _DT)),
                ("Dispersion N=15", ex.stepper.Dispersion(2, _L, 15, _DT), ex.stepper.Dispersion(1, _L, 15, _DT)),
            ):
                n = s1.num_points
                u1 = bl_field(1, 1, n) * 0.5
                u2 = jnp.broadcast_to(u1[:, :, None], (1, n, n))
                got = s2(u2)
                agree(got, jnp.broadcast_to(s1(u1)[:, :, None], (1, n, n)), f"{label}: 2D stepper on a state constant along the second axis vs the 1D stepper", 20)
                out.append(got)
        return out

    for name in ("translation", "axis-permutation", "embedding"):
        add(f"model:C08:{name}", lambda pool, name=name: _symmetry(pool, name), ["exponax.stepper"], "symmetry", cost=4)

    # ------------------------------------------------------------------ C19: finite, session dtype, zero state
    def _stiff(pool):
        real = jnp.zeros(()).dtype
        lam = -jnp.asarray([0.0, 1e-3, 1.0, 1e3, 1e6, 1e9, 1e12, 1e15])[None]
        out = []
        nl = ex.nonlin_fun.ZeroNonlinearFun(1, 14)
        uh = jnp.ones((1, 8), dtype=jnp.result_type(real, 1j))
        for label, lin in (("real", lam + 0j), ("complex", lam * (1 + 0.5j)), ("complex-conj", lam * (1 - 2j))):
            for cls in (ex.etdrk.ETDRK1, ex.etdrk.ETDRK2, ex.etdrk.ETDRK3, ex.etdrk.ETDRK4):
                integ = cls(1.0, lin, nl)
                for leaf in _array_leaves(integ):
                    if not bool(jnp.all(jnp.isfinite(leaf))):
                        raise ModelMismatch(f"{cls.__name__} with a {label} symbol up to |lambda dt| = 1e15: a coefficient is not finite")
                v = integ.step_fourier(uh)
                if not bool(jnp.all(jnp.isfinite(v))):
                    raise ModelMismatch(f"{cls.__name__} with a {label} symbol: the step is not finite")
                out.append(v)
        return out

    add("model:C19:stiff-coefficients-finite", _stiff, [f"exponax.etdrk.ETDRK{p}" for p in (1, 2, 3, 4)], "etdrk", cost=2)

    def _dtype_zero(pool):
        want = jnp.zeros(()).dtype
        out = []
        for label, s, forced in (
            ("Burgers", ex.stepper.Burgers(1, _L, 16, _DT), False), ("KdV order 4", ex.stepper.KortewegDeVries(1, _L, 16, _DT, order=4), False),
            ("KS 2D", ex.stepper.KuramotoSivashinsky(2, _L, 8, _DT), False), ("Diffusion 3D", ex.stepper.Diffusion(3, _L, 6, _DT), False),
            ("GrayScott", ex.stepper.reaction.GrayScott(1, _L, 16, _DT), None), ("KolmogorovFlowVorticity", ex.stepper.KolmogorovFlowVorticity(2, _L, 9, _DT, injection_mode=2), True),
            ("NormalizedConvection", ex.stepper.generic.NormalizedConvectionStepper(1, 16), False),
        ):  # fmt: skip
            u = _field(s.num_channels, s.num_spatial_dims, s.num_points)
            v = s(u)
            if v.dtype != want:
                raise ModelMismatch(f"{label}: result dtype {v.dtype}, session default {want}")
            for leaf in _array_leaves(s):
                if jnp.issubdtype(leaf.dtype, jnp.inexact) and jnp.finfo(leaf.dtype).eps != jnp.finfo(want).eps:
                    raise ModelMismatch(f"{label}: a stored array has dtype {leaf.dtype} in a {want} session")
            z = s(jnp.zeros_like(u))
            if not bool(jnp.all(jnp.isfinite(z))):
                raise ModelMismatch(f"{label}: the zero state maps to a non-finite state")
            if forced is False:
                agree(z, jnp.zeros_like(u), f"{label}: the zero state maps to zero", 1, absolute=1e-30)
            out += [v, z]
        return out

    add("model:C19:dtype-and-zero-state", _dtype_zero, ["exponax.stepper"], "etdrk", cost=3)
