"""Reference-model operations (DESIGN.md §6.9).

A *model operation* evaluates a public-API program and, next to it, the small executable reference
model the property names for it -- the naive Python loop for rollout / repeat / the wrapper steppers,
eager one-at-a-time evaluation for jit / vmap / scan programs, a freshly constructed object for an
object that went through pytree operations (tree_at, flatten/unflatten, serialise/deserialise into an
in-memory file, filter_jit of the module), n small steps for one big step of a linear stepper, an
independent numpy implementation of exp(symbol * dt) for the linear steppers, the conserved quantity
/ divergence / norm for the invariants -- and raises ``ModelMismatch`` if the two differ beyond
rounding. It returns the API result, so inside a simulated run it is *also* compared with its
isolated reference like every other operation.

Consequences for the checks:
* in every simulated history (interleaved callers, abandoned and retried calls, ambient faults,
  precision-session switches) the model relation is re-evaluated on the state the history left
  behind -- a ModelMismatch there, with a clean isolated reference, is a history-dependent violation;
* a model operation that raises ModelMismatch *in its own isolated reference* (a process in which
  nothing else ever happened) is a violation in the empty history: deterministic, replayable as a
  one-operation plan.

Inputs stay fixed closed-form arrays (no input search, DESIGN.md §5): these relations decide the
property for the catalogue's programs and operation sequences, not for all inputs.
"""

from __future__ import annotations

import io
import math

import numpy as np

_L = 3.0
_DT = 0.05


class ModelMismatch(AssertionError):
    """API result and reference model differ beyond rounding."""


def _tol() -> float:
    import jax

    return 1e-9 if jax.config.jax_enable_x64 else 2e-4


def agree(got, want, what: str, factor: float = 1.0, absolute: float = 0.0):
    """Leaf-wise comparison relative to the leaf's scale; structure and shapes must be identical."""
    import jax

    g_leaves, g_def = jax.tree_util.tree_flatten(got)
    w_leaves, w_def = jax.tree_util.tree_flatten(want)
    if len(g_leaves) != len(w_leaves):
        raise ModelMismatch(f"{what}: {len(g_leaves)} leaves vs {len(w_leaves)} in the model")
    tol = _tol() * factor
    for i, (g, w) in enumerate(zip(g_leaves, w_leaves)):
        g, w = np.asarray(g), np.asarray(w)
        if g.shape != w.shape:
            raise ModelMismatch(f"{what}: leaf {i} has shape {g.shape}, model has {w.shape}")
        if g.size == 0:
            continue
        if not np.all(np.isfinite(g)):
            raise ModelMismatch(f"{what}: leaf {i} is not finite")
        scale = max(float(np.max(np.abs(w))), float(np.max(np.abs(g))), 1e-30)
        err = float(np.max(np.abs(g.astype(np.complex128) - w.astype(np.complex128))))
        if err > tol * scale + absolute:
            raise ModelMismatch(f"{what}: leaf {i} differs from the model by {err / scale:.3e} relative (tolerance {tol:.1e})")
    return got


def expect_value_error(fn, what: str):
    try:
        out = fn()
    except ValueError:
        return "rejected"
    except Exception as e:  # noqa: BLE001
        raise ModelMismatch(f"{what}: raised {type(e).__name__} instead of ValueError") from None
    raise ModelMismatch(f"{what}: malformed state was ACCEPTED (returned shape {getattr(out, 'shape', None)})")


# --------------------------------------------------------------------------------------
# inputs: band-limited (strictly below Nyquist) closed-form states, built with numpy only


def bl_modes(d: int, n: int):
    """A fixed set of integer mode vectors with every |m_j| <= (n-1)//2 (strictly below Nyquist), including the
    highest retained mode on every axis and mixed-sign combinations."""
    K = (n - 1) // 2
    modes = []
    for ax in range(d):
        for k in sorted({1, 2, K}):
            if 0 < k <= K:
                m = [0] * d
                m[ax] = k
                modes.append(tuple(m))
    if d >= 2:
        modes += [tuple([1] * d), tuple([K] + [-1] * (d - 1)), tuple([-2 if K >= 2 else -1] + [K] * (d - 1)), tuple([K] * d)]
    out = []
    for m in modes:
        if m not in out and tuple(-x for x in m) not in out:
            out.append(m)
    return out


def bl_field(c: int, d: int, n: int, variant: int = 0):
    """Real band-limited state (C, N, ..., N): sum of cosines of the modes above, plus a mean."""
    import jax.numpy as jnp

    idx = np.indices((n,) * d).astype(np.float64)
    u = np.zeros((c,) + (n,) * d)
    for ch in range(c):
        for j, m in enumerate(bl_modes(d, n)):
            phase = sum(m[a] * idx[a] for a in range(d)) * (2.0 * math.pi / n)
            amp = 1.0 / (1.0 + 0.5 * j)
            u[ch] += amp * np.cos(phase + 0.3 * j + 0.7 * ch + 0.41 * variant)
        u[ch] += 0.2 * (ch + 1) + 0.1 * variant
    return jnp.asarray(u, dtype=jnp.zeros(()).dtype)


def np_linear_step(u, d: int, L: float, dt: float, symbol):
    """Independent model of a linear constant-coefficient step: multiply every Fourier mode by
    exp(symbol(k) * dt); numpy, double precision. `symbol(kvec)` gets the list of physical wavenumber arrays."""
    u = np.asarray(u, dtype=np.float64)
    n = u.shape[-1]
    axes = tuple(range(1, d + 1))
    uh = np.fft.fftn(u, axes=axes)
    ks = np.meshgrid(*[np.fft.fftfreq(n, 1.0 / n) * (2.0 * math.pi / L) for _ in range(d)], indexing="ij")
    uh = uh * np.exp(symbol(ks) * dt)[None]
    return np.real(np.fft.ifftn(uh, axes=axes))


LINEAR_SYMBOLS = {
    # documented PDEs with the constructor defaults / the coefficients passed below
    "stepper.Advection": ({}, lambda ks: -1j * 1.0 * sum(ks)),
    "stepper.Diffusion": ({}, lambda ks: -0.01 * sum(k**2 for k in ks)),
    "stepper.AdvectionDiffusion": ({}, lambda ks: -1j * 1.0 * sum(ks) - 0.01 * sum(k**2 for k in ks)),
    "stepper.Dispersion": ({}, lambda ks: 1.0 * sum((1j * k) ** 3 for k in ks)),
    "stepper.HyperDiffusion": ({}, lambda ks: -0.0001 * sum(k**4 for k in ks)),
    "stepper.generic.GeneralLinearStepper": (
        {"linear_coefficients": (0.0, -0.3, 0.02, 0.004, -0.0003)},
        lambda ks: sum(a * sum((1j * k) ** j for k in ks) for j, a in enumerate((0.0, -0.3, 0.02, 0.004, -0.0003))),
    ),
    "stepper.Diffusion/anisotropic": ({"diffusivity": "diag"}, None),
}


def add_model_ops(cat, Op):  # noqa: C901
    import equinox as eqx
    import jax
    import jax.numpy as jnp

    import exponax as ex
    from workload import _field, _resolve

    def add(key, fn, exports, group, cost=2, atomic=False):
        cat.add(Op(key, fn, tuple(exports), group, cost=cost, atomic=atomic))

    def loop(step, u, n):
        out = []
        for _ in range(n):
            u = step(u)
            out.append(u)
        return u, out

    def stack(states, like):
        if states:
            return jnp.stack(states)
        return jnp.zeros((0,) + like.shape, dtype=like.dtype)

    # ------------------------------------------------------------------ C14: trajectory utilities and wrappers = naive loop
    steppers14 = {
        "KS16": lambda: ex.stepper.KuramotoSivashinsky(1, _L, 16, _DT),
        "Burgers15": lambda: ex.stepper.Burgers(1, _L, 15, _DT),
        "Diffusion2d8": lambda: ex.stepper.Diffusion(2, _L, 8, _DT),
    }
    for sname, mk in steppers14.items():
        for n in (0, 1, 2, 5):
            for init in (False, True):

                def _roll(pool, mk=mk, n=n, init=init):
                    s = mk()
                    u = bl_field(s.num_channels, s.num_spatial_dims, s.num_points)
                    got = ex.rollout(s, n, include_init=init)(u)
                    last, states = loop(s, u, n)
                    agree(got, stack(([u] if init else []) + states, u), f"rollout(n={n}, include_init={init}) vs naive loop", 4)
                    agree(ex.repeat(s, n)(u), last, f"repeat(n={n}) vs naive loop", 4)
                    return got

                add(f"model:C14:rollout[{sname},n={n},init={init}]", _roll, ["exponax.rollout", "exponax.repeat"], "traj")

    for n in (0, 1, 2, 4):
        for constant in (False, True):

            def _roll_aux(pool, n=n, constant=constant):
                s = ex.ForcedStepper(ex.stepper.AdvectionDiffusion(1, _L, 15, _DT))
                u = bl_field(1, 1, 15)
                fs = jnp.stack([_field(1, 1, 15, v) for v in range(n)]) if n else jnp.zeros((0, 1, 15), dtype=u.dtype)
                aux = _field(1, 1, 15, 7) if constant else fs
                got = ex.rollout(s, n, include_init=True, takes_aux=True, constant_aux=constant)(u, aux)
                got_last = ex.repeat(s, n, takes_aux=True, constant_aux=constant)(u, aux)
                states, v = [u], u
                for i in range(n):
                    v = s(v, aux if constant else fs[i])
                    states.append(v)
                agree(got, jnp.stack(states), f"rollout with {'constant' if constant else 'per-step'} aux, n={n}, vs naive loop", 4)
                agree(got_last, v, f"repeat with {'constant' if constant else 'per-step'} aux, n={n}, vs naive loop", 4)
                return got, got_last

            add(f"model:C14:rollout-aux[n={n},constant={constant}]", _roll_aux, ["exponax.rollout", "exponax.repeat", "exponax.ForcedStepper"], "traj")

    def _pytree_state(pool):
        # a stepper function over a pytree state with a pytree aux; integer arithmetic, so the comparison is exact
        def step(state, aux):
            return {"digits": state["digits"] * 3 + aux["d"], "count": state["count"] + aux["inc"]}

        u = {"digits": jnp.asarray([1, 2, 3], dtype=jnp.int32), "count": jnp.asarray(0, dtype=jnp.int32)}
        out = []
        for n in (0, 1, 2, 3):
            aux = {"d": (jnp.arange(n * 3, dtype=jnp.int32).reshape(n, 3) % 5), "inc": jnp.arange(n, dtype=jnp.int32) + 1}
            v, states = u, []
            for i in range(n):
                v = step(v, jax.tree_util.tree_map(lambda x: x[i], aux))
                states.append(v)
            want_trj = jax.tree_util.tree_map(lambda *xs: jnp.stack(xs), *states) if states else jax.tree_util.tree_map(lambda x: jnp.zeros((0,) + x.shape, x.dtype), u)
            got = ex.repeat(step, n, takes_aux=True, constant_aux=False)(u, aux)
            got_trj = ex.rollout(step, n, takes_aux=True, constant_aux=False)(u, aux)
            agree(got, v, f"repeat over a pytree state with per-step pytree aux, n={n}", 0.0)
            agree(got_trj, want_trj, f"rollout over a pytree state with per-step pytree aux, n={n}", 0.0)
            out.append((got, got_trj))
        return out

    add("model:C14:pytree-state-per-step-aux", _pytree_state, ["exponax.rollout", "exponax.repeat"], "traj")

    for sub_len, T in ((1, 6), (2, 6), (4, 6), (6, 6), (3, 5)):

        def _sub(pool, sub_len=sub_len, T=T):
            trj = jnp.stack([_field(1, 1, 16, v) for v in range(T)])
            tree = {"a": trj, "b": trj[:, :, :4]}
            got = ex.stack_sub_trajectories(trj, sub_len)
            got_tree = ex.stack_sub_trajectories(tree, sub_len)
            want = jnp.stack([trj[i : i + sub_len] for i in range(T - sub_len + 1)])
            agree(got, want, f"stack_sub_trajectories(sub_len={sub_len}, T={T}) vs explicit windows", 0.0)
            agree(got_tree, {"a": want, "b": want[:, :, :, :4]}, "stack_sub_trajectories on a pytree vs explicit windows", 0.0)
            return got, got_tree

        add(f"model:C14:sub-trajectories[sub_len={sub_len},T={T}]", _sub, ["exponax.stack_sub_trajectories"], "traj", cost=1)

    inner14 = {
        "Burgers15": lambda **kw: ex.stepper.Burgers(1, _L, 15, _DT, **kw),
        "KS16": lambda **kw: ex.stepper.KuramotoSivashinsky(1, _L, 16, _DT, **kw),
        "Diffusion2d9": lambda **kw: ex.stepper.Diffusion(2, _L, 9, _DT, **kw),
        "KdV15": lambda **kw: ex.stepper.KortewegDeVries(1, _L, 15, _DT, **kw),
    }
    for iname, mk in inner14.items():
        for sub in (1, 2, 3):

            def _rep(pool, mk=mk, sub=sub):
                s = mk()
                w = ex.RepeatedStepper(s, sub)
                u = bl_field(s.num_channels, s.num_spatial_dims, s.num_points)
                got = w(u)
                agree(got, loop(s, u, sub)[0], f"RepeatedStepper(n={sub}) vs {sub} applications of the inner stepper", 4)
                agree(w.step(u), got, "RepeatedStepper.step vs __call__", 1)
                agree(jnp.asarray(w.dt), jnp.asarray(sub * s.dt), f"RepeatedStepper.dt vs {sub} * inner dt", 1)
                if tuple(got.shape) != tuple(u.shape):
                    raise ModelMismatch("RepeatedStepper changed the state's shape")
                return got

            add(f"model:C14:repeated[{iname},sub={sub}]", _rep, ["exponax.RepeatedStepper"], "traj")

        def _nested(pool, mk=mk):
            s = mk()
            inner = ex.RepeatedStepper(s, 2)
            w = ex.RepeatedStepper(inner, 3)
            u = bl_field(s.num_channels, s.num_spatial_dims, s.num_points)
            got = w(u)
            agree(got, loop(s, u, 6)[0], "RepeatedStepper(RepeatedStepper(s, 2), 3) vs 6 applications of s", 6)
            agree(jnp.asarray(w.dt), jnp.asarray(6 * s.dt), "nested RepeatedStepper.dt vs 6 * dt", 1)
            f = _field(s.num_channels, s.num_spatial_dims, s.num_points, 5)
            agree(ex.ForcedStepper(w)(u, f), w(u + (6 * s.dt) * f), "ForcedStepper(nested RepeatedStepper)(u, f) vs unforced step of u + dt_eff * f", 6)
            agree(ex.ForcedStepper(inner)(u, f), inner(u + (2 * s.dt) * f), "ForcedStepper(RepeatedStepper(s, 2))(u, f) vs unforced step of u + 2 dt f", 6)
            agree(ex.rollout(w, 2)(u), jnp.stack([loop(s, u, 6)[0], loop(s, u, 12)[0]]), "rollout of a nested RepeatedStepper vs naive loop", 12)
            return got

        add(f"model:C14:nested-repeated[{iname}]", _nested, ["exponax.RepeatedStepper", "exponax.ForcedStepper", "exponax.rollout"], "traj", cost=3)

    # object life cycles: construct, then functional updates / round trips, then call (the equinox idioms)
    def _lifecycle(pool, which):
        slow = ex.stepper.Diffusion(1, _L, 16, _DT, diffusivity=0.01)
        fast = ex.stepper.Diffusion(1, _L, 16, _DT, diffusivity=0.5)
        u = bl_field(1, 1, 16)
        w = ex.RepeatedStepper(slow, 4)
        first = w(u)  # the object is used before it is updated
        if which == "tree_at-stepper":
            w2 = eqx.tree_at(lambda r: r.stepper, w, fast)
            want = loop(fast, u, 4)[0]
        elif which == "tree_at-num_sub_steps":
            w2 = eqx.tree_at(lambda r: r.num_sub_steps, w, 7)
            want = loop(slow, u, 7)[0]
        elif which == "deserialise":
            buf = io.BytesIO()  # in-memory file: the only storage this library ever meets
            eqx.tree_serialise_leaves(buf, ex.RepeatedStepper(fast, 4))
            buf.seek(0)
            w2 = eqx.tree_deserialise_leaves(buf, w)
            want = loop(fast, u, 4)[0]
        elif which == "flatten-unflatten":
            leaves, treedef = jax.tree_util.tree_flatten(ex.RepeatedStepper(fast, 4))
            w2 = jax.tree_util.tree_unflatten(treedef, leaves)
            want = loop(fast, u, 4)[0]
        elif which == "tree_map-scale":
            # every array leaf of a Diffusion stepper with 0.5 x dt ... not a documented relation; use identity map
            w2 = jax.tree_util.tree_map(lambda x: x, ex.RepeatedStepper(fast, 4))
            want = loop(fast, u, 4)[0]
        elif which == "partition-combine":
            dyn, static = eqx.partition(ex.RepeatedStepper(fast, 4), eqx.is_array)
            w2 = eqx.combine(dyn, static)
            want = loop(fast, u, 4)[0]
        elif which == "nonlinear-tree_at":
            b1 = ex.stepper.Burgers(1, _L, 15, _DT, diffusivity=0.02)
            b2 = ex.stepper.Burgers(1, _L, 15, _DT, diffusivity=0.3)
            u = bl_field(1, 1, 15)
            w = ex.RepeatedStepper(b1, 3)
            first = w(u)
            w2 = eqx.tree_at(lambda r: r.stepper, w, b2)
            want = loop(b2, u, 3)[0]
        else:
            raise KeyError(which)
        got = w2(u)
        agree(got, want, f"RepeatedStepper after {which} vs n applications of its (current) inner stepper", 6)
        agree(eqx.filter_jit(w2)(u), want, f"filter_jit(RepeatedStepper after {which}) vs naive loop", 6)
        return first, got

    for which in ("tree_at-stepper", "tree_at-num_sub_steps", "deserialise", "flatten-unflatten", "tree_map-scale", "partition-combine", "nonlinear-tree_at"):
        add(f"model:C14,C06:lifecycle-repeated[{which}]", lambda pool, which=which: _lifecycle(pool, which), ["exponax.RepeatedStepper"], "traj", cost=3, atomic=True)

    def _stacked_wrappers(pool):
        # a batch of wrapped steppers built over a parameter grid, updated, compiled: each member = one at a time
        nus = (0.02, 0.1, 0.4)
        sub = 3

        def make(nu):
            return ex.RepeatedStepper(ex.stepper.Burgers(1, _L, 15, _DT, diffusivity=nu), sub)

        u = bl_field(1, 1, 15)
        want = jnp.stack([loop(ex.stepper.Burgers(1, _L, 15, _DT, diffusivity=nu), u, sub)[0] for nu in nus])
        stacked = jax.tree_util.tree_map(lambda *xs: jnp.stack(xs), *[eqx.filter(make(nu), eqx.is_array) for nu in nus])
        stacked = eqx.combine(stacked, eqx.filter(make(nus[0]), eqx.is_array, inverse=True))
        got = eqx.filter_vmap(lambda s, x: s(x), in_axes=(eqx.if_array(0), None))(stacked, u)
        agree(got, want, "stacked RepeatedSteppers under filter_vmap vs one at a time", 6)
        got_jit = eqx.filter_jit(eqx.filter_vmap(lambda s, x: s(x), in_axes=(eqx.if_array(0), None)))(stacked, u)
        agree(got_jit, want, "jit(vmap(stacked RepeatedSteppers)) vs one at a time", 6)
        # replace the members' inner steppers by the reversed parameter grid, then call
        rev = jax.tree_util.tree_map(lambda x: x[::-1], eqx.filter(stacked.stepper, eqx.is_array))
        stacked2 = eqx.tree_at(lambda s: s.stepper, stacked, eqx.combine(rev, eqx.filter(stacked.stepper, eqx.is_array, inverse=True)))
        got2 = eqx.filter_jit(eqx.filter_vmap(lambda s, x: s(x), in_axes=(eqx.if_array(0), None)))(stacked2, u)
        agree(got2, want[::-1], "stacked RepeatedSteppers after tree_at of the inner steppers vs one at a time", 6)
        return got, got2

    add("model:C06,C14:stacked-repeated-steppers", _stacked_wrappers, ["exponax.RepeatedStepper", "exponax.stepper.Burgers"], "traj", cost=4, atomic=True)

    # ------------------------------------------------------------------ C12 / C14: ForcedStepper
    for sname, mk in (("Diffusion16", lambda: ex.stepper.Diffusion(1, _L, 16, _DT)), ("Burgers2d9", lambda: ex.stepper.Burgers(2, _L, 9, _DT)), ("KdV15,dt=0.1", lambda: ex.stepper.KortewegDeVries(1, _L, 15, 0.1))):

        def _forced(pool, mk=mk):
            s = mk()
            w = ex.ForcedStepper(s)
            u = bl_field(s.num_channels, s.num_spatial_dims, s.num_points)
            f = _field(s.num_channels, s.num_spatial_dims, s.num_points, 3)
            got = w(u, f)
            agree(got, s(u + s.dt * f), "ForcedStepper(u, f) vs unforced step of u + dt * f", 4)
            agree(w(u, jnp.zeros_like(u)), s(u), "ForcedStepper with zero forcing vs the unforced stepper", 4)
            agree(w.step(u, f), got, "ForcedStepper.step vs __call__", 1)
            return got

        add(f"model:C12,C14:forced[{sname}]", _forced, ["exponax.ForcedStepper"], "traj")

    # ------------------------------------------------------------------ C20: rejection survives wrappers and pytree rebuilds
    def _bad_states(s):
        c, d, n = s.num_channels, s.num_spatial_dims, s.num_points
        return {
            "extra channel": jnp.ones((c + 1,) + (n,) * d),
            "batch axis": jnp.ones((2, c) + (n,) * d),
            "missing channel axis": jnp.ones((n,) * d),
            "wrong points per axis": jnp.ones((c,) + (n + 2,) * d),
        }

    rej = {
        "Diffusion1d": lambda: ex.stepper.Diffusion(1, _L, 16, _DT),
        "Burgers2d": lambda: ex.stepper.Burgers(2, _L, 8, _DT),
        "Wave1d": lambda: ex.stepper.Wave(1, _L, 16, _DT),
        "NormalizedConvection1d": lambda: ex.stepper.generic.NormalizedConvectionStepper(1, 16),
    }
    rebuilds = {
        "fresh": lambda s: s,
        "tree_map-identity": lambda s: jax.tree_util.tree_map(lambda x: x, s),
        "tree_at-dt": lambda s: eqx.tree_at(lambda t: t.dt, s, s.dt),
        "partition-combine": lambda s: eqx.combine(*eqx.partition(s, eqx.is_array)),
        "flatten-unflatten": lambda s: (lambda lt: jax.tree_util.tree_unflatten(lt[1], lt[0]))(jax.tree_util.tree_flatten(s)),
        "filter_jit": lambda s: eqx.filter_jit(s),
        "repeated-1": lambda s: ex.RepeatedStepper(s, 1),
        "repeated-3": lambda s: ex.RepeatedStepper(s, 3),
        "repeated-rebuilt": lambda s: jax.tree_util.tree_map(lambda x: x, ex.RepeatedStepper(s, 2)),
        "vmapped": lambda s: (lambda f: (lambda u: f(u[None])[0]))(jax.vmap(s)),
    }
    for sname, mk in rej.items():
        for rname, rebuild in rebuilds.items():

            def _rej(pool, mk=mk, rebuild=rebuild, rname=rname):
                s = mk()
                good = bl_field(s.num_channels, s.num_spatial_dims, s.num_points)
                first = s(good)
                r = rebuild(s)
                out = r(good)
                if tuple(out.shape) != tuple(good.shape):
                    raise ModelMismatch(f"correctly shaped state returned shape {out.shape} after {rname}")
                agree(out, loop(s, good, {"repeated-3": 3, "repeated-rebuilt": 2}.get(rname, 1))[0], f"stepper after {rname} vs the stepper itself", 4)
                for kind, bad in _bad_states(s).items():
                    if rname == "vmapped" and kind == "batch axis":
                        continue
                    expect_value_error(lambda bad=bad: r(bad), f"{kind} {tuple(bad.shape)} offered after {rname}")
                return first, out

            add(f"model:C20:reject-after[{sname},{rname}]", _rej, ["exponax.RepeatedStepper"], "traj" if "repeated" in rname else "misc", cost=2, atomic=True)

    # ------------------------------------------------------------------ C06: programs = eager, one at a time
    prog = [
        ("stepper.Burgers", 1, 16, {}), ("stepper.Burgers", 2, 9, {}), ("stepper.KortewegDeVries", 1, 15, {}), ("stepper.KuramotoSivashinsky", 1, 16, {"order": 4}),
        ("stepper.Diffusion", 2, 8, {}), ("stepper.Advection", 1, 15, {}), ("stepper.Wave", 1, 16, {}), ("stepper.reaction.GrayScott", 1, 16, {}),
        ("stepper.reaction.FisherKPP", 2, 8, {}), ("stepper.NavierStokesVorticity", 2, 8, {}), ("stepper.KolmogorovFlowVorticity", 2, 9, {}),
        ("stepper.generic.GeneralNonlinearStepper", 1, 16, {}), ("stepper.generic.DifficultyConvectionStepper", 1, 16, {}), ("stepper.NavierStokesVelocity", 3, 6, {}),
    ]  # fmt: skip
    for name, d, n, kw in prog:
        normalized = "Normalized" in name or "Difficulty" in name

        def _programs(pool, name=name, d=d, n=n, kw=kw, normalized=normalized):
            cls = _resolve(name)
            s = cls(d, n, **kw) if normalized else cls(d, _L, n, _DT, **kw)
            us = [_field(s.num_channels, d, n, v) * 0.5 for v in range(3)]
            eager = [s(u) for u in us]
            agree(eqx.filter_jit(s)(us[0]), eager[0], "filter_jit(stepper) vs eager", 4)
            agree(jax.jit(lambda u: s(u))(us[1]), eager[1], "jit(lambda) vs eager", 4)
            agree(jax.vmap(s)(jnp.stack(us)), jnp.stack(eager), "vmap over states vs one at a time", 4)
            # each member depends only on that member
            agree(jax.vmap(s)(jnp.stack([us[0], us[2]]))[0], eager[0], "batch member 0 with another neighbour", 4)
            trj = loop(s, us[0], 3)[1]
            got = ex.rollout(s, 3)(us[0])
            agree(got, jnp.stack(trj), "rollout vs naive loop", 8)
            agree(eqx.filter_jit(ex.rollout(s, 3))(us[0]), jnp.stack(trj), "jit(rollout) vs naive loop", 8)
            a = jax.vmap(ex.rollout(s, 2))(jnp.stack(us[:2]))
            b = ex.rollout(jax.vmap(s), 2)(jnp.stack(us[:2]))
            agree(a, jnp.swapaxes(b, 0, 1), "vmap(rollout) vs rollout(vmap) with batch and time exchanged", 8)
            return got

        add(f"model:C06:programs[{name},D={d},N={n}{',' + str(kw) if kw else ''}]", _programs, [f"exponax.{name}", "exponax.rollout"], "programs", cost=5, atomic=True)

    sweeps = [
        ("stepper.Burgers", "diffusivity", (0.05, 0.1, 0.3), 1, 16),
        ("stepper.KuramotoSivashinsky", "second_order_scale", (1.0, 1.2), 1, 16),
        ("stepper.reaction.FisherKPP", "reactivity", (1.0, 0.5, 0.0), 1, 16),
        ("stepper.reaction.AllenCahn", "first_order_coefficient", (1.0, 0.0), 1, 16),
        ("stepper.generic.GeneralPolynomialStepper", None, None, 1, 16),
        ("stepper.KortewegDeVries", "convection_scale", (-6.0, 0.0, 1.0), 1, 15),
    ]
    for name, par, values, d, n in sweeps:
        if par is None:
            continue

        def _sweep(pool, name=name, par=par, values=values, d=d, n=n):
            cls = _resolve(name)
            steppers = eqx.filter_vmap(lambda v: cls(d, _L, n, _DT, **{par: v}))(jnp.asarray(values))
            u = _field(steppers.num_channels, d, n) * 0.5
            got = eqx.filter_vmap(lambda s, x: s(x), in_axes=(eqx.if_array(0), None))(steppers, u)
            want = jnp.stack([cls(d, _L, n, _DT, **{par: v})(u) for v in values])
            agree(got, want, f"batch of steppers over {par}={values} vs one stepper at a time", 8)
            return got

        add(f"model:C06:param-sweep[{name},{par}]", _sweep, [f"exponax.{name}"], "programs", cost=4, atomic=True)

    # ------------------------------------------------------------------ C01: linear steppers vs an independent numpy model; semigroup; inverse
    for name, (kw, symbol) in LINEAR_SYMBOLS.items():
        if symbol is None:
            continue
        for d, n in ((1, 16), (1, 15), (2, 8), (2, 9), (3, 6), (3, 5)):
            for dt in (_DT, 7.0):

                def _exact(pool, name=name, kw=kw, symbol=symbol, d=d, n=n, dt=dt):
                    s = _resolve(name)(d, _L, n, dt, **kw)
                    u = bl_field(1, d, n)
                    got = s(u)
                    agree(got, np_linear_step(u, d, _L, dt, symbol), f"{name} D={d} N={n} dt={dt}: one step vs exp(symbol * dt) applied mode by mode (numpy)", 20)
                    return got

                add(f"model:C01:exact[{name},D={d},N={n},dt={dt}]", _exact, [f"exponax.{name}"], f"linear{d}", cost=3 if d == 3 else 2)

    def _aniso(pool, d):
        n = {2: 9, 3: 5}[d]
        nu = np.asarray([0.02, 0.005, 0.04][:d])
        c = np.asarray([0.7, -0.4, 1.3][:d])
        u = bl_field(1, d, n)
        out = []
        got = ex.stepper.Diffusion(d, _L, n, 0.3, diffusivity=jnp.asarray(nu))(u)
        agree(got, np_linear_step(u, d, _L, 0.3, lambda ks: -sum(a * k**2 for a, k in zip(nu, ks))), "diagonal diffusion vs numpy model", 20)
        out.append(got)
        A = np.asarray([[0.03, 0.01, 0.0], [0.01, 0.02, 0.005], [0.0, 0.005, 0.04]])[:d, :d]
        got = ex.stepper.Diffusion(d, _L, n, 0.3, diffusivity=jnp.asarray(A))(u)
        agree(got, np_linear_step(u, d, _L, 0.3, lambda ks: -sum(A[i, j] * ks[i] * ks[j] for i in range(d) for j in range(d))), "full-matrix diffusion vs numpy model", 20)
        out.append(got)
        got = ex.stepper.Advection(d, _L, n, 0.3, velocity=jnp.asarray(c))(u)
        agree(got, np_linear_step(u, d, _L, 0.3, lambda ks: -1j * sum(a * k for a, k in zip(c, ks))), "advection with a velocity vector vs numpy model", 20)
        out.append(got)
        got = ex.stepper.AdvectionDiffusion(d, _L, n, 0.3, velocity=jnp.asarray(c), diffusivity=jnp.asarray(nu))(u)
        agree(got, np_linear_step(u, d, _L, 0.3, lambda ks: -1j * sum(a * k for a, k in zip(c, ks)) - sum(a * k**2 for a, k in zip(nu, ks))), "advection-diffusion with vectors vs numpy model", 20)
        out.append(got)
        return out

    for d in (2, 3):
        add(f"model:C01:exact-anisotropic[D={d}]", lambda pool, d=d: _aniso(pool, d), ["exponax.stepper.Diffusion", "exponax.stepper.Advection", "exponax.stepper.AdvectionDiffusion"], f"linear{d}", cost=3)

    lin_all = [
        ("stepper.Advection", False, True), ("stepper.Diffusion", False, False), ("stepper.AdvectionDiffusion", False, False), ("stepper.Dispersion", False, True),
        ("stepper.HyperDiffusion", False, False), ("stepper.Wave", False, True), ("stepper.generic.GeneralLinearStepper", False, False),
        ("stepper.generic.NormalizedLinearStepper", True, False), ("stepper.generic.DifficultyLinearStepper", True, False),
    ]  # fmt: skip
    for name, normalized, reversible in lin_all:
        for d, n in ((1, 16), (1, 15), (2, 9)):

            def _semigroup(pool, name=name, normalized=normalized, reversible=reversible, d=d, n=n):
                cls = _resolve(name)
                u = None
                out = []
                if normalized:
                    s = cls(d, n)
                    u = bl_field(s.num_channels, d, n)
                    agree(eqx.filter_jit(s)(u), s(u), "jit vs eager", 4)
                    out.append(s(u))
                    return out
                s1 = cls(d, _L, n, _DT)
                s4 = cls(d, _L, n, 4 * _DT)
                u = bl_field(s1.num_channels, d, n)
                big = s4(u)
                agree(loop(s1, u, 4)[0], big, f"{name}: 4 calls with dt vs one call with 4 dt", 20)
                out.append(big)
                if reversible:
                    back = cls(d, _L, n, -_DT)(s1(u))
                    agree(back, u, f"{name}: a call with -dt undoes a call with dt", 20)
                    out.append(back)
                return out

            add(f"model:C01:semigroup[{name},D={d},N={n}]", _semigroup, [f"exponax.{name}"], f"linear{d}", cost=2)

    # ------------------------------------------------------------------ C13: interfaces give the same dynamics
    gen = ex.stepper.generic

    def _interfaces(pool, d, n, kind):
        L, dt = 2.5, 0.02
        u = bl_field(1 if kind != "convection-multi" else d, d, n) * 0.5
        out = []
        lin = (0.0, -0.2, 0.03)
        nlin = gen.normalize_coefficients(lin, domain_extent=L, dt=dt)
        dlin = gen.reduce_normalized_coefficients_to_difficulty(nlin, num_spatial_dims=d, num_points=n)
        if kind == "linear":
            a = gen.GeneralLinearStepper(d, L, n, dt, linear_coefficients=lin)(u)
            b = gen.NormalizedLinearStepper(d, n, normalized_linear_coefficients=nlin)(u)
            c = gen.DifficultyLinearStepper(d, n, linear_difficulties=dlin)(u)
            agree(b, a, "NormalizedLinearStepper(alpha_j = a_j dt / L^j) vs GeneralLinearStepper", 20)
            agree(c, a, "DifficultyLinearStepper(reduced) vs GeneralLinearStepper", 20)
            # only the non-dimensional groups matter: another (L, dt, a) with the same alphas
            L2, dt2 = 1.0, 0.1
            lin2 = gen.denormalize_coefficients(nlin, domain_extent=L2, dt=dt2)
            agree(gen.GeneralLinearStepper(d, L2, n, dt2, linear_coefficients=lin2)(u), a, "same non-dimensional groups, other (L, dt, a)", 20)
            agree(ex.stepper.AdvectionDiffusion(d, L, n, dt, velocity=0.2, diffusivity=0.03)(u), a, "AdvectionDiffusion vs GeneralLinearStepper with (0, -c, nu)", 20)
            out += [a, b, c]
        elif kind == "convection":
            scale = 0.8
            a = gen.GeneralConvectionStepper(d, L, n, dt, linear_coefficients=lin, convection_scale=scale, single_channel=True)(u)
            ns = gen.normalize_convection_scale(scale, domain_extent=L, dt=dt)
            b = gen.NormalizedConvectionStepper(d, n, normalized_linear_coefficients=nlin, normalized_convection_scale=ns, single_channel=True)(u)
            agree(b, a, "NormalizedConvectionStepper vs GeneralConvectionStepper", 40)
            ds = gen.reduce_normalized_convection_scale_to_difficulty(ns, num_spatial_dims=d, num_points=n, maximum_absolute=1.0)
            c = gen.DifficultyConvectionStepper(d, n, linear_difficulties=dlin, convection_difficulty=ds, maximum_absolute=1.0, single_channel=True)(u)
            agree(c, a, "DifficultyConvectionStepper vs GeneralConvectionStepper", 40)
            out += [a, b, c]
        return out

    for d, n in ((1, 16), (1, 15), (2, 9)):
        for kind in ("linear", "convection"):
            add(f"model:C13:interfaces[{kind},D={d},N={n}]", lambda pool, d=d, n=n, kind=kind: _interfaces(pool, d, n, kind), ["exponax.stepper.generic.GeneralLinearStepper"], f"generic{d}", cost=4)

    def _specific_vs_generic(pool, d, n):
        L, dt = _L, _DT
        u = bl_field(d, d, n) * 0.5
        u1 = bl_field(1, d, n) * 0.5
        out = []
        a = ex.stepper.Burgers(d, L, n, dt, diffusivity=0.05)(u)
        b = gen.GeneralConvectionStepper(d, L, n, dt, linear_coefficients=(0.0, 0.0, 0.05), convection_scale=1.0)(u)
        agree(a, b, "Burgers vs GeneralConvectionStepper((0, 0, nu), 1)", 20)
        out.append(a)
        a = ex.stepper.Diffusion(d, L, n, dt, diffusivity=0.05)(u1)
        b = gen.GeneralLinearStepper(d, L, n, dt, linear_coefficients=(0.0, 0.0, 0.05))(u1)
        agree(a, b, "Diffusion vs GeneralLinearStepper((0, 0, nu))", 20)
        out.append(a)
        a = ex.stepper.Dispersion(d, L, n, dt, dispersivity=0.3)(u1)
        b = gen.GeneralLinearStepper(d, L, n, dt, linear_coefficients=(0.0, 0.0, 0.0, 0.3))(u1)
        agree(a, b, "Dispersion vs GeneralLinearStepper((0, 0, 0, xi))", 20)
        out.append(a)
        a = ex.stepper.HyperDiffusion(d, L, n, dt, hyper_diffusivity=0.002)(u1)
        b = gen.GeneralLinearStepper(d, L, n, dt, linear_coefficients=(0.0, 0.0, 0.0, 0.0, -0.002))(u1)
        agree(a, b, "HyperDiffusion vs GeneralLinearStepper((0, 0, 0, 0, -zeta))", 20)
        out.append(a)
        return out

    for d, n in ((1, 16), (1, 15), (2, 9)):
        add(f"model:C13:specific-vs-generic[D={d},N={n}]", lambda pool, d=d, n=n: _specific_vs_generic(pool, d, n), ["exponax.stepper.Burgers", "exponax.stepper.generic.GeneralConvectionStepper"], f"generic{d}", cost=4)

    def _conversions(pool):
        out = []
        for L, dt, d, n in ((_L, _DT, 2, 24), (1.0, 0.1, 1, 48), (2.0, 0.01, 3, 16)):
            coefs = (0.1, -0.4, 0.02, 0.003)
            nc = gen.normalize_coefficients(coefs, domain_extent=L, dt=dt)
            agree(jnp.asarray(nc), jnp.asarray([a * dt / L**j for j, a in enumerate(coefs)]), "normalize_coefficients vs alpha_j = a_j dt / L^j", 4)
            agree(jnp.asarray(gen.denormalize_coefficients(nc, domain_extent=L, dt=dt)), jnp.asarray(coefs), "denormalize(normalize(a)) vs a", 4)
            dc = gen.reduce_normalized_coefficients_to_difficulty(nc, num_spatial_dims=d, num_points=n)
            agree(jnp.asarray(gen.extract_normalized_coefficients_from_difficulty(dc, num_spatial_dims=d, num_points=n)), jnp.asarray(nc), "extract(reduce(alpha)) vs alpha", 4)
            for norm, denorm, red, ext in (
                (gen.normalize_convection_scale, gen.denormalize_convection_scale, gen.reduce_normalized_convection_scale_to_difficulty, gen.extract_normalized_convection_scale_from_difficulty),
                (gen.normalize_gradient_norm_scale, gen.denormalize_gradient_norm_scale, gen.reduce_normalized_gradient_norm_scale_to_difficulty, gen.extract_normalized_gradient_norm_scale_from_difficulty),
            ):
                a = norm(0.7, domain_extent=L, dt=dt)
                agree(jnp.asarray(denorm(a, domain_extent=L, dt=dt)), jnp.asarray(0.7), f"{denorm.__name__}({norm.__name__}(x)) vs x", 4)
                b = red(a, num_spatial_dims=d, num_points=n, maximum_absolute=1.5)
                agree(jnp.asarray(ext(b, num_spatial_dims=d, num_points=n, maximum_absolute=1.5)), jnp.asarray(a), f"{ext.__name__}({red.__name__}(x)) vs x", 4)
            p = gen.normalize_polynomial_scales((0.0, 1.0, -2.0), domain_extent=L, dt=dt)
            agree(jnp.asarray(gen.denormalize_polynomial_scales(p, domain_extent=L, dt=dt)), jnp.asarray((0.0, 1.0, -2.0)), "denormalize_polynomial_scales(normalize) vs identity", 4)
            out.append([float(x) for x in nc] + [float(x) for x in dc])
        return out

    add("model:C13:conversions", _conversions, [f"exponax.stepper.generic.{n_}" for n_ in gen.__all__ if n_[0].islower()], "misc", cost=1)
