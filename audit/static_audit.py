"""Static leg of the premise audit: an AST walk over the audited package.

It looks for the *surfaces* on which a schedule, clock, fault or interleaving could influence a
result (DESIGN.md §1, S1-S6): forbidden or unlisted imports, I/O / entropy / clock / callback
calls, module- or class-level mutable state, writes to non-local state from inside functions,
attribute writes outside constructors, mutable defaults, memoisation decorators.

Findings are facts about the source, not verdicts about a property. A non-empty list means the
not-applicable reasoning of DESIGN.md §4 must be re-derived for the affected code.
"""

from __future__ import annotations

import ast
import os
from dataclasses import dataclass

ALLOWED_IMPORT_ROOTS = {
    # what the package uses today
    "jax", "jaxtyping", "equinox", "typing", "abc", "collections", "itertools", "warnings", "importlib", "__future__",
    # value-level helpers a refactor may legitimately add; none gives access to ambient state
    "math", "cmath", "numbers", "dataclasses", "enum", "operator", "functools", "typing_extensions", "numpy", "scipy", "types",
}  # fmt: skip
VIZ_EXTRA_IMPORT_ROOTS = {"matplotlib", "copy", "vape4d", "IPython", "mpl_toolkits"}
FORBIDDEN_IMPORT_ROOTS = {
    "threading", "asyncio", "concurrent", "multiprocessing", "_thread", "queue", "sched", "signal", "selectors",
    "time", "datetime", "calendar",
    "random", "secrets", "uuid",
    "os", "sys", "io", "pathlib", "shutil", "tempfile", "glob", "fnmatch", "mmap", "fcntl",
    "socket", "ssl", "http", "urllib", "subprocess", "ctypes",
    "pickle", "shelve", "dbm", "sqlite3", "json", "csv", "marshal",
    "weakref", "atexit", "gc", "inspect", "logging", "contextvars",
}  # fmt: skip

FORBIDDEN_CALL_NAMES = {"open", "input", "exec", "eval", "compile", "id", "hash", "setattr", "delattr", "globals", "__import__", "breakpoint"}
FORBIDDEN_ATTR_CHAINS = (
    "jax.debug.", "jax.config.update", "config.update", "io_callback", "pure_callback", "host_callback",
    "numpy.random", "np.random", "onp.random", "jax.experimental.multihost", "jax.distributed",
    "jax.clear_caches", "jax.pmap", "shard_map", "jax.device_put",
)  # fmt: skip
CACHE_DECORATORS = ("lru_cache", "cache", "cached_property", "memoize", "weakref_lru_cache")
MUTABLE_CTORS = {"list", "dict", "set", "defaultdict", "OrderedDict", "deque", "Counter", "bytearray"}
MUTATING_METHODS = {"append", "extend", "insert", "update", "setdefault", "add", "pop", "popitem", "clear", "remove", "discard", "appendleft", "sort", "reverse"}
CONSTRUCTOR_NAMES = {"__init__", "__post_init__", "__check_init__", "__init_subclass__"}


@dataclass
class Finding:
    rule: str
    file: str
    line: int
    detail: str

    def as_dict(self):
        return {"rule": self.rule, "where": f"{self.file}:{self.line}", "detail": self.detail}


def _chain(node: ast.AST) -> str:
    parts = []
    while isinstance(node, ast.Attribute):
        parts.append(node.attr)
        node = node.value
    if isinstance(node, ast.Name):
        parts.append(node.id)
    elif isinstance(node, ast.Call):
        parts.append(_chain(node.func) + "()")
    else:
        parts.append("?")
    return ".".join(reversed(parts))


def _is_mutable_value(node: ast.AST | None) -> bool:
    if node is None:
        return False
    if isinstance(node, (ast.List, ast.Dict, ast.Set, ast.ListComp, ast.DictComp, ast.SetComp)):
        return True
    if isinstance(node, ast.Call):
        name = _chain(node.func).split(".")[-1]
        return name in MUTABLE_CTORS
    return False


def _local_names(fn: ast.FunctionDef | ast.AsyncFunctionDef | ast.Lambda) -> set[str]:
    names: set[str] = set()
    a = fn.args
    for arg in a.posonlyargs + a.args + a.kwonlyargs:
        names.add(arg.arg)
    if a.vararg:
        names.add(a.vararg.arg)
    if a.kwarg:
        names.add(a.kwarg.arg)
    body = fn.body if isinstance(fn.body, list) else [fn.body]
    for stmt in body:
        for node in ast.walk(stmt):
            if isinstance(node, ast.Name) and isinstance(node.ctx, ast.Store):
                names.add(node.id)
            elif isinstance(node, (ast.FunctionDef, ast.AsyncFunctionDef, ast.ClassDef)):
                names.add(node.name)
            elif isinstance(node, ast.arg):
                names.add(node.arg)  # nested lambdas / defs: treat their parameters as local too
            elif isinstance(node, (ast.Import, ast.ImportFrom)):
                for al in node.names:
                    names.add((al.asname or al.name).split(".")[0])
    return names


class _Visitor(ast.NodeVisitor):
    def __init__(self, relfile: str, is_viz: bool):
        self.file = relfile
        self.viz = is_viz
        self.findings: list[Finding] = []
        self.info: dict[str, int] = {}
        self.fn_stack: list[tuple[str, set[str]]] = []
        self.class_depth = 0

    def add(self, rule, node, detail):
        self.findings.append(Finding(rule, self.file, getattr(node, "lineno", 0), detail))

    def note(self, what):
        self.info[what] = self.info.get(what, 0) + 1

    # ---- imports
    def _check_import(self, node, root):
        if root == "" or root == "exponax":
            return
        allowed = ALLOWED_IMPORT_ROOTS | (VIZ_EXTRA_IMPORT_ROOTS if self.viz else set())
        if root in allowed:
            return
        if self.viz:
            self.note(f"viz import {root}")
            return
        if root in FORBIDDEN_IMPORT_ROOTS:
            self.add("forbidden-import", node, root)
        else:
            self.add("unlisted-import", node, root)

    def visit_Import(self, node):
        for al in node.names:
            self._check_import(node, al.name.split(".")[0])

    def visit_ImportFrom(self, node):
        if node.level == 0 and node.module:
            self._check_import(node, node.module.split(".")[0])
            if node.module == "functools":
                for al in node.names:
                    if al.name in CACHE_DECORATORS:
                        self.add("memoisation", node, f"from functools import {al.name}")

    # ---- scopes
    def _visit_fn(self, node):
        for d in getattr(node, "decorator_list", []):
            ch = _chain(d.func if isinstance(d, ast.Call) else d)
            if ch.split(".")[-1] in CACHE_DECORATORS:
                self.add("memoisation", d, f"@{ch}")
        a = node.args
        for default in list(a.defaults) + [d for d in a.kw_defaults if d is not None]:
            if _is_mutable_value(default):
                self.add("mutable-default", default, f"in {getattr(node, 'name', '<lambda>')}")
        self.fn_stack.append((getattr(node, "name", "<lambda>"), _local_names(node)))
        self.generic_visit(node)
        self.fn_stack.pop()

    visit_FunctionDef = _visit_fn
    visit_Lambda = _visit_fn

    def visit_AsyncFunctionDef(self, node):
        if not self.viz:
            self.add("coroutine", node, node.name)
        self._visit_fn(node)

    def visit_ClassDef(self, node):
        for stmt in node.body:
            value = None
            if isinstance(stmt, ast.Assign):
                value = stmt.value
            elif isinstance(stmt, ast.AnnAssign):
                value = stmt.value
            if _is_mutable_value(value) and not self.viz:
                self.add("class-level-mutable", stmt, node.name)
        self.class_depth += 1
        self.generic_visit(node)
        self.class_depth -= 1

    def _in_constructor(self) -> bool:
        return any(name in CONSTRUCTOR_NAMES for name, _ in self.fn_stack)

    def _is_local(self, name: str) -> bool:
        return any(name in names for _, names in self.fn_stack)

    # ---- statements
    def visit_Global(self, node):
        if not self.viz:
            self.add("global-statement", node, ",".join(node.names))

    def visit_Nonlocal(self, node):
        if not self.viz:
            self.add("nonlocal-statement", node, ",".join(node.names))

    def _check_store_target(self, t, node):
        if self.viz:
            return
        if isinstance(t, (ast.Tuple, ast.List)):
            for e in t.elts:
                self._check_store_target(e, node)
            return
        if isinstance(t, ast.Starred):
            return self._check_store_target(t.value, node)
        if isinstance(t, ast.Attribute):
            if not self.fn_stack:
                self.add("module-level-attribute-write", node, _chain(t))
            elif not self._in_constructor():
                self.add("attribute-write-outside-constructor", node, _chain(t))
            else:
                base = t.value
                while isinstance(base, ast.Attribute):
                    base = base.value
                if not (isinstance(base, ast.Name) and base.id == "self"):
                    self.add("attribute-write-on-foreign-object", node, _chain(t))
        elif isinstance(t, ast.Subscript):
            base = t.value
            while isinstance(base, (ast.Subscript, ast.Attribute)):
                base = base.value
            if isinstance(base, ast.Name):
                if not self.fn_stack:
                    if base.id != "__all__":
                        self.add("module-level-item-write", node, base.id)
                elif not self._is_local(base.id):
                    self.add("item-write-to-nonlocal", node, base.id)
                elif base.id == "self":
                    self.add("item-write-through-self", node, _chain(t.value))

    def visit_Assign(self, node):
        for t in node.targets:
            self._check_store_target(t, node)
            if not self.fn_stack and not self.class_depth and isinstance(t, ast.Name) and t.id != "__all__":
                if _is_mutable_value(node.value) and not self.viz:
                    self.add("module-level-mutable", node, t.id)
        self.generic_visit(node)

    def visit_AnnAssign(self, node):
        self._check_store_target(node.target, node)
        if not self.fn_stack and not self.class_depth and isinstance(node.target, ast.Name):
            if _is_mutable_value(node.value) and not self.viz:
                self.add("module-level-mutable", node, node.target.id)
        self.generic_visit(node)

    def visit_AugAssign(self, node):
        self._check_store_target(node.target, node)
        if isinstance(node.target, ast.Name) and self.fn_stack and not self._is_local(node.target.id) and not self.viz:
            self.add("augassign-to-nonlocal", node, node.target.id)
        self.generic_visit(node)

    def visit_Delete(self, node):
        for t in node.targets:
            if isinstance(t, (ast.Attribute, ast.Subscript)):
                self._check_store_target(t, node)
        self.generic_visit(node)

    # ---- expressions
    def visit_Call(self, node):
        ch = _chain(node.func)
        last = ch.split(".")[-1]
        if not self.viz:
            if isinstance(node.func, ast.Name) and node.func.id in FORBIDDEN_CALL_NAMES:
                self.add("forbidden-call", node, node.func.id)
            if ch in ("object.__setattr__", "object.__delattr__") and not self._in_constructor():
                self.add("attribute-write-outside-constructor", node, ch)
            for bad in FORBIDDEN_ATTR_CHAINS:
                if bad in ch:
                    self.add("forbidden-call", node, ch)
                    break
            if isinstance(node.func, ast.Attribute) and last in MUTATING_METHODS:
                base = node.func.value
                while isinstance(base, (ast.Attribute, ast.Subscript)):
                    base = base.value
                if isinstance(base, ast.Name) and self.fn_stack and not self._is_local(base.id):
                    self.add("mutating-call-on-nonlocal", node, ch)
                elif isinstance(base, ast.Name) and base.id == "self" and not self._in_constructor():
                    self.add("mutating-call-through-self", node, ch)
            if isinstance(node.func, ast.Name) and node.func.id == "print":
                self.note("print")
            if ch.endswith("warnings.warn") or ch == "warn":
                self.note("warnings.warn")
        self.generic_visit(node)

    def visit_Attribute(self, node):
        if not self.viz and isinstance(node.ctx, ast.Load):
            ch = _chain(node)
            for bad in ("numpy.random", "np.random", "jax.debug"):
                if ch.startswith(bad):
                    self.add("forbidden-attribute", node, ch)
                    break
        self.generic_visit(node)

    def visit_While(self, node):
        self.note("while")
        self.generic_visit(node)

    def visit_Try(self, node):
        self.note("try")
        self.generic_visit(node)

    def visit_With(self, node):
        self.note("with")
        self.generic_visit(node)

    def visit_Yield(self, node):
        if not self.viz:
            self.add("generator", node, "yield")
        self.generic_visit(node)

    visit_YieldFrom = visit_Yield

    def visit_Await(self, node):
        if not self.viz:
            self.add("coroutine", node, "await")
        self.generic_visit(node)


def audit_package(pkg_root: str) -> dict:
    pkg_root = os.path.abspath(pkg_root)
    findings: list[Finding] = []
    info: dict[str, int] = {}
    n_files = n_lines = 0
    for dirpath, dirnames, filenames in os.walk(pkg_root):
        dirnames.sort()
        dirnames[:] = [d for d in dirnames if d != "__pycache__"]
        for fn in sorted(filenames):
            if not fn.endswith(".py"):
                continue
            path = os.path.join(dirpath, fn)
            rel = os.path.relpath(path, pkg_root)
            src = open(path, encoding="utf-8").read()
            n_files += 1
            n_lines += src.count("\n") + 1
            try:
                tree = ast.parse(src, filename=path)
            except SyntaxError as e:
                findings.append(Finding("syntax-error", rel, e.lineno or 0, str(e)))
                continue
            v = _Visitor(rel, is_viz=rel.split(os.sep)[0] == "viz")
            v.visit(tree)
            findings.extend(v.findings)
            for k, n in v.info.items():
                info[k] = info.get(k, 0) + n
    return {
        "files": n_files,
        "lines": n_lines,
        "findings": [f.as_dict() for f in findings],
        "info": dict(sorted(info.items())),
    }


if __name__ == "__main__":
    import json
    import sys

    print(json.dumps(audit_package(sys.argv[1] if len(sys.argv) > 1 else "/repo/exponax"), indent=1))
