"""Ambient seams: every process-level source of nondeterminism a Python library can reach.

`install()` replaces the entry points below by wrappers that
  * attribute each hit to its nearest non-stdlib caller and count hits whose caller is a file
    under the audited package (that count must stay 0 for the premise to hold);
  * for the clock family, serve a *simulated* clock that the simulator can jump at will, so a
    hidden clock read would surface as a digest mismatch as well;
  * otherwise pass through to the real implementation (JAX itself uses several of them).

The wrappers never draw from the simulator's PRNG and never read a real clock themselves.
"""

from __future__ import annotations

import builtins
import collections
import os
import random as _random
import socket
import subprocess
import sys
import threading
import time as _time

_SKIP_BASENAMES = {"os.py", "_collections_abc.py", "random.py", "seams.py", "<frozen os>", "<frozen _collections_abc>"}


class Seams:
    def __init__(self, package_root: str, exclude: tuple[str, ...] = ()):
        self.root = package_root.rstrip("/") + "/"
        self.exclude = tuple(e.rstrip("/") + "/" for e in exclude)
        self.hits_total: collections.Counter = collections.Counter()
        self.hits_pkg: collections.Counter = collections.Counter()  # (seam, file:line)
        self.hits_pkg_on_stack: collections.Counter = collections.Counter()
        self.sim_clock = 1_900_000_000.0  # simulated epoch seconds
        self.sim_mono = 1000.0
        self._orig: list[tuple[object, str, object]] = []
        self.installed = False
        self._quiet = 0
        self._in_pkg_cache: dict[str, bool] = {}

    # ------------------------------------------------------------------ attribution
    def _in_pkg(self, filename: str) -> bool:
        r = self._in_pkg_cache.get(filename)
        if r is None:
            r = filename.startswith(self.root) and not any(filename.startswith(e) for e in self.exclude)
            self._in_pkg_cache[filename] = r
        return r

    def harness(self):
        """Context manager: seam hits made by the simulator itself are not counted."""
        s = self

        class _Quiet:
            def __enter__(self_inner):
                s._quiet += 1

            def __exit__(self_inner, *exc):
                s._quiet -= 1

        return _Quiet()

    def _note(self, seam: str):
        if self._quiet:
            return
        self.hits_total[seam] += 1
        f = sys._getframe(2)
        direct = None
        depth = 0
        g = f
        while g is not None and depth < 6:
            base = os.path.basename(g.f_code.co_filename)
            if base not in _SKIP_BASENAMES and not g.f_code.co_filename.startswith("<frozen"):
                direct = g
                break
            g = g.f_back
            depth += 1
        if direct is not None and self._in_pkg(direct.f_code.co_filename):
            self.hits_pkg[(seam, f"{direct.f_code.co_filename[len(self.root):]}:{direct.f_lineno}")] += 1
            return
        g = f
        depth = 0
        while g is not None and depth < 200:
            if self._in_pkg(g.f_code.co_filename):
                self.hits_pkg_on_stack[seam] += 1
                return
            g = g.f_back
            depth += 1

    # ------------------------------------------------------------------ install / remove
    def _patch(self, holder, name, make):
        try:
            orig = getattr(holder, name)
        except AttributeError:
            return
        self._orig.append((holder, name, orig))
        setattr(holder, name, make(orig))

    def _passthrough(self, seam):
        def make(orig):
            def wrapper(*a, **k):
                self._note(seam)
                return orig(*a, **k)

            wrapper.__name__ = getattr(orig, "__name__", seam)
            wrapper.__wrapped__ = orig
            return wrapper

        return make

    def install(self, *, simulate_clock: bool = True):
        assert not self.installed
        self.installed = True
        s = self

        # clocks
        def mk_clock(seam, getter):
            def make(orig):
                def wrapper(*a, **k):
                    s._note(seam)
                    if not simulate_clock:
                        return orig(*a, **k)
                    return getter()

                wrapper.__wrapped__ = orig
                return wrapper

            return make

        self._patch(_time, "time", mk_clock("time.time", lambda: s.sim_clock))
        self._patch(_time, "time_ns", mk_clock("time.time_ns", lambda: int(s.sim_clock * 1e9)))
        self._patch(_time, "monotonic", mk_clock("time.monotonic", lambda: s.sim_mono))
        self._patch(_time, "monotonic_ns", mk_clock("time.monotonic_ns", lambda: int(s.sim_mono * 1e9)))
        self._patch(_time, "perf_counter", mk_clock("time.perf_counter", lambda: s.sim_mono))
        self._patch(_time, "perf_counter_ns", mk_clock("time.perf_counter_ns", lambda: int(s.sim_mono * 1e9)))
        self._patch(_time, "process_time", mk_clock("time.process_time", lambda: s.sim_mono))

        def mk_sleep(orig):
            def sleep(secs):
                s._note("time.sleep")
                if simulate_clock:
                    s.sim_mono += max(0.0, float(secs))
                    s.sim_clock += max(0.0, float(secs))
                else:
                    orig(secs)

            sleep.__wrapped__ = orig
            return sleep

        self._patch(_time, "sleep", mk_sleep)

        # entropy
        self._patch(os, "urandom", self._passthrough("os.urandom"))
        self._patch(os, "getpid", self._passthrough("os.getpid"))
        for name in ("random", "randint", "randrange", "uniform", "gauss", "normalvariate", "choice", "choices",
                     "shuffle", "sample", "getrandbits", "seed", "betavariate", "expovariate", "triangular"):  # fmt: skip
            self._patch(_random, name, self._passthrough(f"random.{name}"))
        try:
            import numpy.random as npr

            for name in ("seed", "rand", "randn", "random", "random_sample", "randint", "normal", "uniform", "choice",
                         "permutation", "shuffle", "standard_normal", "default_rng", "RandomState", "get_state", "bytes"):  # fmt: skip
                self._patch(npr, name, self._passthrough(f"numpy.random.{name}"))
        except Exception:  # pragma: no cover
            pass
        try:
            import uuid

            for name in ("uuid1", "uuid4"):
                self._patch(uuid, name, self._passthrough(f"uuid.{name}"))
        except Exception:  # pragma: no cover
            pass

        # I/O, processes, threads
        self._patch(builtins, "open", self._passthrough("builtins.open"))
        self._patch(builtins, "input", self._passthrough("builtins.input"))
        self._patch(os, "open", self._passthrough("os.open"))
        self._patch(socket, "socket", self._passthrough("socket.socket"))
        self._patch(subprocess, "Popen", self._passthrough("subprocess.Popen"))
        self._patch(threading.Thread, "start", self._passthrough("threading.Thread.start"))

        # ambient configuration
        self._patch(os, "getenv", self._passthrough("os.getenv"))
        self._patch(type(os.environ), "__getitem__", self._passthrough("os.environ[]"))
        try:
            import jax

            self._patch(jax.config, "update", self._passthrough("jax.config.update"))
        except Exception:  # pragma: no cover
            pass
        return self

    def remove(self):
        for holder, name, orig in reversed(self._orig):
            setattr(holder, name, orig)
        self._orig.clear()
        self.installed = False

    # ------------------------------------------------------------------ simulator-controlled clock
    def jump_clock(self, wall_delta: float, mono_delta: float):
        self.sim_clock += wall_delta  # wall clock may go backwards (NTP step)
        self.sim_mono += max(0.0, mono_delta)  # monotonic clocks never do

    def report(self) -> dict:
        return {
            "hits_total": dict(self.hits_total),
            "hits_from_package": {f"{k[0]} @ {k[1]}": v for k, v in self.hits_pkg.items()},
            "hits_with_package_on_stack": dict(self.hits_pkg_on_stack),
        }


# real clock for the harness's own watchdogs and throughput figures (never used in a decision)
REAL_MONOTONIC = _time.monotonic
REAL_SLEEP = _time.sleep
