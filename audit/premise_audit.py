#!/venv/bin/python
"""Premise audit for the not-applicable verdicts of /verif/MANIFEST.json (DESIGN.md §6).

NOT a property check. It re-establishes, against the current working tree of the audited
repository, that exponax offers no surface on which a schedule, clock, fault or interleaving could
influence a result:

  leg 1  static    AST audit of every source file (static_audit.py)
  leg 2  seams     every clock / entropy / I-O / thread / env / config entry point is trapped while
                   the whole public API (enumerated from __all__) is exercised; hits whose caller
                   is package code must be 0
  leg 3  simulate  deterministic simulation: seeded caller threads under a baton-passing scheduler
                   with line-level pre-emption inside package code, seeded operation histories and
                   ambient fault injection (clock jumps, RNG reseeds, gc, allocation churn, cache
                   eviction, injected crashes); oracle = bitwise equality of every completed
                   operation with its isolated reference, across {float32, float64} sessions,
                   hash seeds and XLA thread-pool settings

Output: `PREMISE-HOLDS` (exit 0), `PREMISE-CHANGED <what>` lines (exit 3) or `AUDIT-ERROR`
(exit 2: the harness itself failed -- hang, worker death, replay divergence). It never prints a
VIOLATION line: a changed premise means the not-applicable reasoning must be re-derived for the
affected API, not that a listed property is broken.

    premise_audit.py                      quick tier (~2-3 min on 16 cores)
    premise_audit.py --tier thorough      deeper: more seeds, per-group isolated references
    premise_audit.py --replay FILE        re-execute a recorded (minimised) failing plan
    premise_audit.py --selfcheck          harness self-test (static rules fire; simulator detects a planted stateful op)
"""

from __future__ import annotations

import argparse
import concurrent.futures as cf
import hashlib
import json
import os
import re
import shutil
import subprocess
import sys
import tempfile
import threading
import time

HERE = os.path.dirname(os.path.abspath(__file__))
sys.path.insert(0, HERE)

import static_audit  # noqa: E402

PY = "/venv/bin/python"
WORKER = os.path.join(HERE, "worker.py")

# which not-applicable verdicts rest on which part of the API (coarse; for the report only)
API_TO_PROPERTIES = [
    ("exponax.ic.", ["C18"]),
    ("exponax.build_ic_set", ["C18", "C14"]),
    ("exponax.metrics.", ["C16"]),
    ("exponax.get_spectrum", ["C17"]),
    ("exponax.FourierInterpolator", ["C15"]),
    ("exponax.map_between_resolutions", ["C15"]),
    ("exponax.spectral", ["C04", "C05", "C10"]),
    ("exponax.fft", ["C04"]),
    ("exponax.ifft", ["C04"]),
    ("exponax.derivative", ["C05"]),
    ("exponax.make_grid", ["C04"]),
    ("exponax.poisson", ["C05"]),
    ("exponax.nonlin_fun.", ["C03", "C09", "C10", "C12"]),
    ("exponax.etdrk.", ["C02", "C19"]),
    ("exponax.rollout", ["C14"]),
    ("exponax.repeat", ["C14"]),
    ("exponax.stack_sub_trajectories", ["C14"]),
    ("exponax.RepeatedStepper", ["C14"]),
    ("exponax.ForcedStepper", ["C12", "C14"]),
    ("exponax.stepper.generic.", ["C13", "C01", "C06", "C07", "C08", "C19", "C20"]),
    ("exponax.stepper.", ["C01", "C02", "C06", "C07", "C08", "C09", "C10", "C11", "C12", "C13", "C19", "C20"]),
]


def properties_for(exports):
    out = set()
    for e in exports:
        for prefix, props in API_TO_PROPERTIES:
            if e.startswith(prefix):
                out.update(props)
                break
    return sorted(out)


# --------------------------------------------------------------------------------------
# worker management


def worker_env(repo: str, *, x64: bool, hashseed: str, single_thread: bool) -> dict:
    env = {k: v for k, v in os.environ.items() if k not in ("PYTHONHASHSEED", "XLA_FLAGS", "JAX_ENABLE_X64", "PYTHONPATH")}
    env["PYTHONPATH"] = repo  # the audited tree wins over any installed copy
    env["PREMISE_AUDIT_EXPECT_ROOT"] = os.path.join(repo, "exponax")
    env["JAX_ENABLE_X64"] = "1" if x64 else "0"
    env["JAX_PLATFORMS"] = "cpu"
    env["PYTHONDONTWRITEBYTECODE"] = "1"
    if hashseed != "random":
        env["PYTHONHASHSEED"] = hashseed
    if single_thread:
        env["XLA_FLAGS"] = "--xla_cpu_multi_thread_eigen=false intra_op_parallelism_threads=1"
    return env


_SLOT_LOCK = threading.Lock()
_FREE_SLOTS: list[int] = []


def run_worker(mode: str, spec: dict, env: dict, workdir: str, tag: str, timeout: float) -> dict:
    """Runs one worker process pinned to a free CPU slot (1 or 2 cores, alternating)."""
    with _SLOT_LOCK:
        slot = _FREE_SLOTS.pop() if _FREE_SLOTS else None
    try:
        if slot is not None:
            ncpu = os.cpu_count() or 1
            cpus = [slot % ncpu] if slot % 2 == 0 else [slot % ncpu, (slot + 1) % ncpu]
            env = dict(env, PREMISE_AUDIT_AFFINITY=",".join(map(str, cpus)))
        return _run_worker(mode, spec, env, workdir, tag, timeout)
    finally:
        if slot is not None:
            with _SLOT_LOCK:
                _FREE_SLOTS.append(slot)


def _run_worker(mode: str, spec: dict, env: dict, workdir: str, tag: str, timeout: float) -> dict:
    inp = os.path.join(workdir, f"{tag}.in.json")
    outp = os.path.join(workdir, f"{tag}.out.json")
    with open(inp, "w") as f:
        json.dump(spec, f)
    t0 = time.monotonic()
    try:
        p = subprocess.run([PY, WORKER, mode, inp, outp], env=env, stdout=subprocess.PIPE, stderr=subprocess.PIPE, timeout=timeout, cwd=workdir)
    except subprocess.TimeoutExpired as e:
        return {"worker_error": f"timeout after {timeout}s", "stderr": (e.stderr or b"")[-3000:].decode("utf8", "replace"), "tag": tag}
    if p.returncode != 0 or not os.path.exists(outp):
        return {"worker_error": f"exit {p.returncode}", "stderr": p.stderr[-3000:].decode("utf8", "replace"), "tag": tag}
    res = json.load(open(outp))
    res["wall"] = time.monotonic() - t0
    res["tag"] = tag
    return res


def shape_family(key: str) -> str:
    """Operations with the same (D, N) share most XLA programs; keeping them in one process avoids recompiling."""
    m = re.search(r"D=(\d)(?:,N=(\d+))?", key)
    return f"D{m.group(1)}N{m.group(2) or ''}" if m else "misc"


def contiguous_chunks(items, costs, n):
    """Split `items` (already ordered) into <= n contiguous chunks of roughly equal cost."""
    total = sum(costs[k] for k in items)
    chunks, cur, acc = [], [], 0.0
    for k in items:
        cur.append(k)
        acc += costs[k]
        if acc >= total / n and len(chunks) < n - 1:
            chunks.append(cur)
            cur, acc = [], 0.0
    if cur:
        chunks.append(cur)
    return chunks


def balanced_chunks(items, costs, n):
    chunks = [[] for _ in range(n)]
    load = [0] * n
    for it in sorted(items, key=lambda k: -costs[k]):
        i = load.index(min(load))
        chunks[i].append(it)
        load[i] += costs[it]
    return [c for c in chunks if c]


# --------------------------------------------------------------------------------------


class Audit:
    def __init__(self, args):
        self.args = args
        self.repo = os.path.abspath(args.repo)
        self.jobs = args.jobs
        self.workdir = tempfile.mkdtemp(prefix="premise-audit-")
        _FREE_SLOTS[:] = list(range(self.jobs))
        self.changed: list[str] = []  # PREMISE-CHANGED lines
        self.errors: list[str] = []  # AUDIT-ERROR lines
        self.report: dict = {"repo": self.repo, "tier": args.tier, "seed_base": args.seed_base}

    def cleanup(self):
        shutil.rmtree(self.workdir, ignore_errors=True)

    # ---------------------------------------------------------------- leg 1
    def leg_static(self):
        res = static_audit.audit_package(os.path.join(self.repo, "exponax"))
        self.report["static"] = res
        for f in res["findings"]:
            self.changed.append(f"static {f['rule']} at exponax/{f['where']}: {f['detail']}")

    # ---------------------------------------------------------------- catalogue
    def load_catalogue(self):
        env = worker_env(self.repo, x64=False, hashseed="0", single_thread=False)
        res = run_worker("list", {}, env, self.workdir, "list", 300)
        if "worker_error" in res:
            self.errors.append(f"catalogue: {res['worker_error']}\n{res.get('stderr', '')}")
            return False
        self.ops = res["ops"]
        self.keys = list(self.ops)
        self.groups = {}
        for k, o in self.ops.items():
            self.groups.setdefault(o["group"], []).append(k)
        self.report["catalogue"] = {
            "operations": len(self.keys),
            "configurations": len(self.groups),
            "public_exports": len(res["exports"]),
            "exports_skipped": res["skipped_exports"],
            "exports_uncovered": res["gaps"],
            "package_root": res["package_root"],
            "session": res["session"],
        }
        for g in res["gaps"]:
            self.changed.append(f"coverage new public export not exercised by the audit workload: {g}")
        return True

    # ---------------------------------------------------------------- reference tables
    def leg_reference(self):
        costs = {k: o["cost"] for k, o in self.ops.items()}
        if self.args.tier == "thorough":
            # one fresh interpreter per configuration group: the most isolated reference available
            by_group = [sorted(v) for _, v in sorted(self.groups.items())]
            gcost = {i: sum(costs[k] for k in g) for i, g in enumerate(by_group)}
            # groups are packed only to bound process count; each chunk = few unrelated groups
            n_chunks = max(self.jobs * 4, 1)
            packs = balanced_chunks(list(range(len(by_group))), gcost, n_chunks)
            chunks = [[k for gi in pack for k in by_group[gi]] for pack in packs]
        else:
            chunks = contiguous_chunks(sorted(self.keys, key=lambda k: (shape_family(k), k)), costs, self.jobs)
        self.reference = {False: {}, True: {}}
        self.ref_chunks = chunks
        jobs = []
        with cf.ThreadPoolExecutor(self.jobs) as ex:
            for x64 in (False, True):
                env = worker_env(self.repo, x64=x64, hashseed="0", single_thread=False)
                for i, ch in enumerate(chunks):
                    jobs.append((x64, ex.submit(run_worker, "ref", {"ops": ch}, env, self.workdir, f"ref-{int(x64)}-{i}", 1200)))
            t0 = time.monotonic()
            for x64, fut in jobs:
                res = fut.result()
                if "worker_error" in res:
                    self.errors.append(f"reference worker {res['tag']}: {res['worker_error']}\n{res.get('stderr', '')}")
                    continue
                want = "float64" if x64 else "float32"
                if res["session"]["default_float"] != want:
                    self.errors.append(f"reference session dtype {res['session']['default_float']} != {want}")
                self.reference[x64].update(res["table"])
        raised = {x: [k for k, v in t.items() if v[0] != "ok"] for x, t in self.reference.items()}
        self.report["reference"] = {
            "processes": len(jobs),
            "isolation": "per configuration group" if self.args.tier == "thorough" else f"{len(chunks)} balanced chunks",
            "ops_float32": len(self.reference[False]),
            "ops_float64": len(self.reference[True]),
            "ops_raising_in_reference": raised,
            "wall_s": round(time.monotonic() - t0, 1),
        }
        for x, ks in raised.items():
            for k in ks:
                self.errors.append(f"reference op raised ({'x64' if x else 'f32'}): {k} -> {self.reference[x][k][1]}")

    # ---------------------------------------------------------------- simulation
    def make_plans(self, n_seeds):
        from sim import make_plan

        seeds = [self.args.seed_base + i for i in range(n_seeds)]
        # coverage: every operation of the catalogue is mandatory in exactly one plan of each session
        plans = {False: [], True: []}
        for si, x64 in enumerate((False, True)):
            mine = seeds[si::2]
            if not mine:
                continue
            order = sorted(self.keys, key=lambda k: (shape_family(k), hashlib.sha256(f"{self.args.seed_base}-{x64}-{k}".encode()).hexdigest()))
            slices = contiguous_chunks(order, {k: 1 for k in order}, len(mine))
            slices += [[] for _ in range(len(mine) - len(slices))]
            for s, mand in zip(mine, slices):
                plans[x64].append(make_plan(s, self.keys, self.groups, mandatory=mand if self.args.cover else None))
        return plans

    def worker_variants(self, x64):
        out = []
        for hs in ("0", "1", "4242", "random"):
            for st in (False, True):
                out.append(dict(x64=x64, hashseed=hs, single_thread=st))
        return out

    def run_plans(self, plans_by_session, label, shift=0, record_trace=False):
        """Distribute plans over worker processes; returns list of run records (with 'variant')."""
        tasks = []
        for x64, plans in plans_by_session.items():
            if not plans:
                continue
            variants = self.worker_variants(x64)
            n_workers = max(1, min(len(plans), self.jobs // 2 if len(plans_by_session) > 1 else self.jobs))
            pcost = {id(p): sum(self.ops[k]["cost"] for t in p.threads for k in t) for p in plans}
            buckets = [[p for p in plans if id(p) in set(ch)] for ch in contiguous_chunks([id(p) for p in plans], pcost, n_workers)]
            for wi, b in enumerate(buckets):
                if not b:
                    continue
                var = variants[(wi + shift) % len(variants)]
                needed = {k for p in b for t in p.threads for k in t}
                spec = {
                    "plans": [p.to_json() for p in b],
                    "reference": {k: self.reference[x64][k] for k in needed if k in self.reference[x64]},
                    "wall_cap": self.args.run_wall_cap,
                    "record_trace": record_trace,
                    "cold_start": self.args.cold_start,
                }
                tasks.append((var, spec, f"{label}-{int(x64)}-{wi}"))
        runs = []
        seam_totals: dict = {}
        with cf.ThreadPoolExecutor(self.jobs) as ex:
            futs = [(var, ex.submit(run_worker, "sim", spec, worker_env(self.repo, **var), self.workdir, tag, self.args.worker_timeout)) for var, spec, tag in tasks]
            for var, fut in futs:
                res = fut.result()
                if "worker_error" in res:
                    self.errors.append(f"simulation worker {res['tag']}: {res['worker_error']}\n{res.get('stderr', '')[-1500:]}")
                    continue
                for r in res["runs"]:
                    r["variant"] = var
                    runs.append(r)
                for k, v in res["seams"]["hits_total"].items():
                    seam_totals[k] = seam_totals.get(k, 0) + v
                for k, v in res["seams"]["hits_from_package"].items():
                    self.seam_pkg_hits[k] = self.seam_pkg_hits.get(k, 0) + v
        for k, v in seam_totals.items():
            self.seam_totals[k] = self.seam_totals.get(k, 0) + v
        return runs

    def leg_simulate(self):
        n_seeds = self.args.seeds
        self.seam_pkg_hits: dict = {}
        self.seam_totals: dict = {}
        t0 = time.monotonic()
        plans = self.make_plans(n_seeds)
        runs = self.run_plans(plans, "sim")
        wall = time.monotonic() - t0
        by_seed = {r["seed"]: r for r in runs}
        expected = {p.seed for ps in plans.values() for p in ps}
        for s in sorted(expected - set(by_seed)):
            self.errors.append(f"simulated run {s} produced no record")
        bad = []
        for r in runs:
            if r.get("error"):
                self.errors.append(f"simulated run {r['seed']}: {r['error']}")
            elif r["mismatches"]:
                bad.append(r)

        # determinism self-test: a sample of seeds again, in another process, another position,
        # another hash seed / XLA setting -- the event log digest must be identical
        good = [r for r in runs if not r.get("error")]
        sample = sorted(good, key=lambda r: hashlib.sha256(str(r["seed"]).encode()).hexdigest())[: self.args.replay_sample]
        from sim import Plan

        again = {False: [], True: []}
        for r in sample:
            again[r["variant"]["x64"]].append(Plan.from_json(r["plan"]))
        again = {k: list(reversed(v)) for k, v in again.items()}
        reruns = self.run_plans(again, "det", shift=3) if sample else []
        diverged = []
        for rr in reruns:
            first = by_seed[rr["seed"]]
            if rr.get("error"):
                self.errors.append(f"determinism re-run {rr['seed']}: {rr['error']}")
            elif rr["event_digest"] != first["event_digest"]:
                diverged.append((rr["seed"], first["variant"], rr["variant"]))
        for s, v1, v2 in diverged:
            self.errors.append(f"replay divergence: seed {s} gave different event logs under {v1} and {v2}")

        # aggregate reach
        agg = {"line_events": 0, "decisions": 0, "switches": 0, "line_switches": 0, "ops_completed": 0, "ops_crashed": 0, "ops_raised": 0}
        faults: dict = {}
        ops_seen = {False: set(), True: set()}
        digests = set()
        sim_seconds = 0.0
        for r in good:
            for k in agg:
                agg[k] += r["stats"][k]
            for k, v in r["stats"]["faults"].items():
                faults[k] = faults.get(k, 0) + v
            ops_seen[r["variant"]["x64"]].update(r["ops"])
            digests.add(r["event_digest"])
            sim_seconds += abs(r.get("sim_clock", 1.9e9) - 1.9e9)
        self.report["simulation"] = {
            "runs": len(good),
            "seeds": [self.args.seed_base, self.args.seed_base + n_seeds - 1],
            "wall_s": round(wall, 1),
            "runs_per_hour": round(len(good) / wall * 3600) if wall > 0 else None,
            "distinct_event_logs": len(digests),
            "reach": agg,
            "faults_injected": faults,
            "ops_exercised_float32": len(ops_seen[False]),
            "ops_exercised_float64": len(ops_seen[True]),
            "ops_in_catalogue": len(self.keys),
            "runs_with_mismatch": len(bad),
            "determinism_reruns": len(reruns),
            "determinism_divergences": len(diverged),
            "worker_variants": "x64 {0,1} x PYTHONHASHSEED {0,1,4242,random} x XLA {default, single-thread}",
            "simulated_wall_clock_excursion_s": sim_seconds,
            "real_code": "exponax (whole package, unmodified), jax, equinox, XLA CPU",
            "stubs": "time.* served by the simulated clock; every other seam passes through after being counted",
        }
        self.report["seams"] = {"hits_total": self.seam_totals, "hits_from_package": self.seam_pkg_hits}
        for k, v in sorted(self.seam_pkg_hits.items()):
            self.changed.append(f"seam package code touched an ambient seam: {k} ({v}x)")
        if bad:
            self.handle_mismatches(bad)

    # ---------------------------------------------------------------- minimisation and replay files
    def isolated_reference(self, x64, keys):
        """One fresh interpreter per operation: a reference no history can have polluted."""
        env = worker_env(self.repo, x64=x64, hashseed="0", single_thread=False)
        table = {}
        keys = sorted(set(keys))
        with cf.ThreadPoolExecutor(self.jobs) as ex:
            futs = [ex.submit(run_worker, "ref", {"ops": [k]}, env, self.workdir, f"iso-{int(x64)}-{i}", 900) for i, k in enumerate(keys)]
            for fut in futs:
                res = fut.result()
                if "worker_error" in res:
                    self.errors.append(f"isolated reference {res['tag']}: {res['worker_error']}")
                    continue
                table.update(res["table"])
        return table

    def _try_plan(self, plan, variant, tag, reference=None):
        """Run one plan in a fresh process; returns run record (or None on harness trouble)."""
        x64 = variant["x64"]
        needed = {k for t in plan.threads for k in t}
        ref = reference if reference is not None else self.reference[x64]
        spec = {"plans": [plan.to_json()], "reference": {k: ref[k] for k in needed if k in ref}, "wall_cap": self.args.run_wall_cap, "record_trace": True, "cold_start": True}
        res = run_worker("sim", spec, worker_env(self.repo, **variant), self.workdir, tag, self.args.worker_timeout)
        if "worker_error" in res or not res["runs"] or res["runs"][0].get("error"):
            return None
        return res["runs"][0]

    def minimise(self, run):
        from sim import Plan

        variant = run["variant"]
        x64 = variant["x64"]
        plan = Plan.from_json(run["plan"])
        attempts = [0]
        # Judge every candidate against per-operation isolated references: the chunked reference of
        # leg_reference may itself be polluted by the very history-dependence we are minimising.
        suspects = {m["op"] for m in run["mismatches"]}
        chunk_prefixes = []
        for ch in getattr(self, "ref_chunks", []):
            hit = [i for i, k in enumerate(ch) if k in suspects]
            if hit:
                chunk_prefixes.append(ch[: hit[0] + 1])
        iso = self.isolated_reference(x64, [k for t in plan.threads for k in t] + [k for p in chunk_prefixes for k in p])
        tgt = [None]

        def fails(p, tag):
            attempts[0] += 1
            r = self._try_plan(p, variant, f"min-{run['seed']}-{tag}-{attempts[0]}", reference=iso)
            if not r or not r["mismatches"]:
                return None
            if tgt[0] is None:
                tgt[0] = r["mismatches"][0]["op"]
            return r if any(m["op"] == tgt[0] for m in r["mismatches"]) else None

        best = fails(plan, "orig")
        if best is None:
            # the simulated run is clean against isolated references, so the *reference process* was
            # the polluted history: minimise its operation sequence instead
            for pre in sorted(chunk_prefixes, key=len):
                cand = Plan(plan.seed, [list(pre)], 0.0, 0.0, 0.0, [], 0, "reference-chunk order")
                best = fails(cand, "refchunk")
                if best:
                    plan = cand
                    run = dict(run, ops=list(pre))
                    break
        if best is None:
            return plan, run, attempts[0], False  # did not reproduce in a fresh process
        target = tgt[0]
        # 1. simplest explanations first: no faults, no line pre-emption, one thread in executed order
        executed = run["ops"]
        for name, cand in (
            ("single-thread-no-faults", Plan(plan.seed, [list(executed)], 0.0, 0.0, 0.0, [], 0, "serialised")),
            ("no-faults", Plan(plan.seed, plan.threads, plan.p_line, 0.0, 0.0, [], 0, "faults off")),
            ("no-line-preemption", Plan(plan.seed, plan.threads, 0.0, plan.p_fault, 0.0, [f for f in plan.faults if f != "crash"], 0, "op-boundary scheduling only")),
        ):
            r = fails(cand, name)
            if r:
                plan, best = cand, r
                break
        # 2. ddmin over the operations (flattened, thread assignment kept)
        flat = [(ti, k) for ti, t in enumerate(plan.threads) for k in t]

        def rebuild(items):
            th = [[] for _ in plan.threads]
            for ti, k in items:
                th[ti].append(k)
            return Plan(plan.seed, [t for t in th if t] or [[]], plan.p_line, plan.p_fault, plan.p_crash, plan.faults, plan.max_crashes, plan.note)

        n = 2
        while len(flat) >= 2 and attempts[0] < self.args.min_budget:
            size = max(1, len(flat) // n)
            subsets = [flat[i : i + size] for i in range(0, len(flat), size)]
            cands = [[x for j, s in enumerate(subsets) if j != i for x in s] for i in range(len(subsets))]
            cands = [c for c in cands if any(k == target for _, k in c)]
            found = None
            with cf.ThreadPoolExecutor(min(self.jobs, max(1, len(cands)))) as ex:
                futs = [(c, ex.submit(fails, rebuild(c), f"dd{n}")) for c in cands]
                for c, fut in futs:
                    r = fut.result()
                    if r and found is None:
                        found = (c, r)
            if found:
                flat, best = found
                plan = rebuild(flat)
                n = max(n - 1, 2)
            elif n >= len(flat):
                break
            else:
                n = min(len(flat), n * 2)
        return plan, best, attempts[0], True

    def handle_mismatches(self, bad):
        os.makedirs(self.args.replay_dir, exist_ok=True)
        affected = set()
        for r in bad:
            for m in r["mismatches"]:
                affected.add(m["op"])
        exports = sorted({e for k in affected for e in self.ops[k]["exports"]})
        first = sorted(bad, key=lambda r: (sum(len(t) for t in r["plan"]["threads"]), r["seed"]))[0]
        plan, best, attempts, reproduced = self.minimise(first)
        path = os.path.join(self.args.replay_dir, f"seed-{first['seed']}.json")
        with open(path, "w") as f:
            json.dump(
                {
                    "kind": "premise-audit-replay",
                    "original_seed": first["seed"],
                    "variant": first["variant"],
                    "plan": plan.to_json(),
                    "expected": {"event_digest": best.get("event_digest"), "mismatching_ops": sorted({m["op"] for m in best.get("mismatches", [])})},
                    "trace": best.get("trace"),
                    "minimisation_attempts": attempts,
                    "reproduced_in_fresh_process": reproduced,
                },
                f,
                indent=1,
            )
        self.report["mismatch"] = {
            "runs": len(bad),
            "seeds": sorted(r["seed"] for r in bad)[:50],
            "operations": sorted(affected)[:50],
            "exports": exports,
            "verdicts_to_rederive": properties_for(exports),
            "replay_file": path,
            "minimised_ops": sum(len(t) for t in plan.threads),
            "minimised_from_ops": sum(len(t) for t in first["plan"]["threads"]),
        }
        self.changed.append(
            f"simulate results depend on history/schedule/ambient state: {len(affected)} operation(s) differ from their isolated reference in {len(bad)} run(s), "
            f"e.g. {sorted(affected)[0]}; API {exports[:4]}; verdicts to re-derive {properties_for(exports)}; seed={first['seed']} replay={path}"
        )

    # ---------------------------------------------------------------- replay of a recorded file
    def replay(self, path):
        from sim import Plan

        rec = json.load(open(path))
        if not self.load_catalogue():
            return 2
        plan = Plan.from_json(rec["plan"])
        variant = rec["variant"]
        needed = sorted({k for t in plan.threads for k in t})
        env = worker_env(self.repo, x64=variant["x64"], hashseed="0", single_thread=False)
        # isolated reference: one fresh interpreter per operation
        self.reference = {variant["x64"]: {}}
        with cf.ThreadPoolExecutor(self.jobs) as ex:
            futs = [ex.submit(run_worker, "ref", {"ops": [k]}, env, self.workdir, f"rref-{i}", 600) for i, k in enumerate(needed)]
            for fut in futs:
                res = fut.result()
                if "worker_error" in res:
                    print(f"AUDIT-ERROR reference for replay: {res['worker_error']}")
                    return 2
                self.reference[variant["x64"]].update(res["table"])
        r = self._try_plan(plan, variant, "replay")
        if r is None:
            print("AUDIT-ERROR replay run failed in the harness")
            return 2
        got = sorted({m["op"] for m in r["mismatches"]})
        same_log = r["event_digest"] == rec["expected"]["event_digest"]
        print(f"replay seed={plan.seed} ops={sum(len(t) for t in plan.threads)} event_digest={'identical' if same_log else 'DIFFERENT'} mismatching_ops={got}")
        if got and same_log:
            print(f"REPLAY-REPRODUCED {path}")
            return 3
        if got:
            print(f"REPLAY-REPRODUCED-WITH-DIFFERENT-SCHEDULE {path}")
            return 3
        print("REPLAY-CLEAN no operation differs from its isolated reference")
        return 0

    # ---------------------------------------------------------------- main
    def run(self):
        t0 = time.monotonic()
        self.leg_static()
        if self.args.leg in ("all", "dynamic"):
            if self.load_catalogue():
                self.leg_reference()
                if not self.errors:
                    self.leg_simulate()
        self.report["wall_s"] = round(time.monotonic() - t0, 1)
        self.report["premise_changed"] = self.changed
        self.report["audit_errors"] = self.errors
        report_path = self.args.report or os.path.join(HERE, "out", f"report-{self.args.tier}.json")
        os.makedirs(os.path.dirname(report_path), exist_ok=True)
        with open(report_path, "w") as f:
            json.dump(self.report, f, indent=1, sort_keys=True)
        sim = self.report.get("simulation", {})
        print(
            f"premise-audit tier={self.args.tier} static_findings={len(self.report['static']['findings'])} "
            f"ops={self.report.get('catalogue', {}).get('operations')} runs={sim.get('runs')} distinct_event_logs={sim.get('distinct_event_logs')} "
            f"line_events={sim.get('reach', {}).get('line_events')} line_switches={sim.get('reach', {}).get('line_switches')} faults={sim.get('faults_injected')} "
            f"seam_hits_from_package={sum(self.report.get('seams', {}).get('hits_from_package', {}).values())} "
            f"determinism={sim.get('determinism_reruns')}re-runs/{sim.get('determinism_divergences')}divergent wall={self.report['wall_s']}s"
        )
        if self.errors:
            for e in self.errors:
                print("AUDIT-ERROR " + e.replace("\n", "\n    "))
        for c in self.changed:
            print("PREMISE-CHANGED " + c)
        if self.changed:
            return 3
        if self.errors:
            return 2
        print("PREMISE-HOLDS no schedule/clock/I-O/entropy/shared-state surface found; every simulated run reproduced the isolated reference bit for bit")
        return 0


def main():
    ap = argparse.ArgumentParser()
    ap.add_argument("--tier", choices=("quick", "thorough"), default=os.environ.get("VERIF_TIER", "quick"))
    ap.add_argument("--leg", choices=("all", "static", "dynamic"), default="all")
    ap.add_argument("--repo", default=os.environ.get("PREMISE_AUDIT_REPO", "/repo"))
    ap.add_argument("--jobs", type=int, default=min(16, os.cpu_count() or 4))
    ap.add_argument("--seeds", type=int, default=None)
    ap.add_argument("--seed-base", type=int, default=int(os.environ.get("VERIF_SEED", "0")))
    ap.add_argument("--replay-sample", type=int, default=None)
    ap.add_argument("--no-cover", dest="cover", action="store_false")
    ap.add_argument("--cold-start", action="store_true", help="clear every JAX/equinox cache before each run (slower; schedules are cache-independent, see DESIGN.md)")
    ap.add_argument("--run-wall-cap", type=float, default=900.0)
    ap.add_argument("--worker-timeout", type=float, default=3000.0)
    ap.add_argument("--min-budget", type=int, default=60)
    ap.add_argument("--replay")
    ap.add_argument("--replay-dir", default=os.path.join(HERE, "replays"))
    ap.add_argument("--report", default=None, help="where to write the JSON report (default audit/out/report-<tier>.json)")
    ap.add_argument("--selfcheck", action="store_true")
    args = ap.parse_args()
    if args.seeds is None:
        args.seeds = 64 if args.tier == "quick" else 1024
    if args.replay_sample is None:
        args.replay_sample = 8 if args.tier == "quick" else 64
    if args.selfcheck:
        import selfcheck

        sys.exit(selfcheck.main(args))
    audit = Audit(args)
    try:
        if args.replay:
            sys.exit(audit.replay(args.replay))
        sys.exit(audit.run())
    finally:
        audit.cleanup()


if __name__ == "__main__":
    main()
