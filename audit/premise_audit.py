#!/venv/bin/python
"""Premise audit for the not-applicable verdicts of /verif/MANIFEST.json (DESIGN.md §6).

NOT a property check. It re-establishes, against the current working tree of the audited
repository, that exponax offers no surface on which a schedule, clock, fault or interleaving could
influence a result:

  leg 1  static    AST audit of every source file (static_audit.py)
  leg 2  seams     every clock / entropy / I-O / thread / env / config entry point is trapped while
                   the whole public API (enumerated from __all__) is exercised; hits whose caller
                   is package code must be 0
  leg 3  simulate  deterministic simulation: seeded caller threads under a baton-passing scheduler
                   with line-level pre-emption inside package code, seeded operation histories and
                   ambient fault injection (clock jumps, RNG reseeds, gc, allocation churn, cache
                   eviction, injected crashes); oracle = bitwise equality of every completed
                   operation with its isolated reference, across {float32, float64} sessions,
                   hash seeds and XLA thread-pool settings

Output: `PREMISE-HOLDS` (exit 0), `PREMISE-CHANGED <what>` lines (exit 3) or `AUDIT-ERROR`
(exit 2: the harness itself failed -- hang, worker death, replay divergence). It never prints a
VIOLATION line: a changed premise means the not-applicable reasoning must be re-derived for the
affected API, not that a listed property is broken.

    premise_audit.py                      quick tier (~2-3 min on 16 cores)
    premise_audit.py --tier thorough      deeper: more seeds, per-group isolated references
    premise_audit.py --replay FILE        re-execute a recorded (minimised) failing plan
    premise_audit.py --selfcheck          harness self-test (static rules fire; simulator detects a planted stateful op)
"""

from __future__ import annotations

import argparse
import json
import os
import sys
import time

HERE = os.path.dirname(os.path.abspath(__file__))
sys.path.insert(0, HERE)

import static_audit  # noqa: E402

from engine import Explorer  # noqa: E402

# which not-applicable verdicts rest on which part of the API (coarse; for the report only)
API_TO_PROPERTIES = [
    ("exponax.ic.", ["C18"]),
    ("exponax.build_ic_set", ["C18", "C14"]),
    ("exponax.metrics.", ["C16"]),
    ("exponax.get_spectrum", ["C17"]),
    ("exponax.FourierInterpolator", ["C15"]),
    ("exponax.map_between_resolutions", ["C15"]),
    ("exponax.spectral", ["C04", "C05", "C10"]),
    ("exponax.fft", ["C04"]),
    ("exponax.ifft", ["C04"]),
    ("exponax.derivative", ["C05"]),
    ("exponax.make_grid", ["C04"]),
    ("exponax.poisson", ["C05"]),
    ("exponax.nonlin_fun.", ["C03", "C09", "C10", "C12"]),
    ("exponax.etdrk.", ["C02", "C19"]),
    ("exponax.rollout", ["C14"]),
    ("exponax.repeat", ["C14"]),
    ("exponax.stack_sub_trajectories", ["C14"]),
    ("exponax.RepeatedStepper", ["C14"]),
    ("exponax.ForcedStepper", ["C12", "C14"]),
    ("exponax.stepper.generic.", ["C13", "C01", "C06", "C07", "C08", "C19", "C20"]),
    ("exponax.stepper.", ["C01", "C02", "C06", "C07", "C08", "C09", "C10", "C11", "C12", "C13", "C19", "C20"]),
]


def properties_for(exports):
    out = set()
    for e in exports:
        for prefix, props in API_TO_PROPERTIES:
            if e.startswith(prefix):
                out.update(props)
                break
    return sorted(out)



def run_audit(args) -> int:
    t0 = time.monotonic()
    changed: list[str] = []
    report: dict = {"repo": os.path.abspath(args.repo), "tier": args.tier, "seed_base": args.seed_base}

    # leg 1: static
    static = static_audit.audit_package(os.path.join(args.repo, "exponax"))
    report["static"] = static
    for f in static["findings"]:
        changed.append(f"static {f['rule']} at exponax/{f['where']}: {f['detail']}")

    import re as _re

    sel = (lambda k, m: bool(_re.search(args.ops_regex, k))) if args.ops_regex else None
    ex = Explorer(
        repo=args.repo, jobs=args.jobs, seeds=args.seeds, seed_base=args.seed_base, isolate_reference=args.tier == "thorough", select=sel,
        replay_sample=args.replay_sample, cover=args.cover, cold_start=args.cold_start, run_wall_cap=args.run_wall_cap,
        worker_timeout=args.worker_timeout, min_budget=args.min_budget, replay_dir=args.replay_dir, label="premise",
        crash_points=96 if args.tier == "quick" else None, switch_points=64 if args.tier == "quick" else None,
        switch_cap=600 if args.tier == "quick" else 20000,
    )  # fmt: skip
    try:
        if args.leg in ("all", "dynamic") and ex.load_catalogue():
            for g in ex.report["catalogue"]["exports_uncovered"]:
                changed.append(f"coverage new public export not exercised by the audit workload: {g}")
            ex.build_reference()
            for sess, ks in ex.report["reference"]["ops_raising_in_reference"].items():
                for k in ks:
                    if not k.startswith("reject:"):  # rejection operations are *expected* to raise
                        ex.errors.append(f"reference op raised ({sess}): {k}")
            if not ex.errors:
                good = ex.simulate()
                # leg 2: seams
                for k, v in sorted(ex.seam_pkg_hits.items()):
                    changed.append(f"seam package code touched an ambient seam: {k} ({v}x)")
                for d in ex.diverged:
                    ex.errors.append(f"replay divergence: seed {d['seed']} gave different event logs under {d['first']} and {d['second']}")
                # leg 3: any bitwise difference from the isolated reference changes the premise
                bad = [r for r in good if r["mismatches"]]
                if bad:
                    affected = sorted({m["op"] for r in bad for m in r["mismatches"]})
                    exports = sorted({e for k in affected for e in ex.ops[k]["exports"]})
                    first = sorted(bad, key=lambda r: (sum(len(t) for t in r["plan"]["threads"]), r["seed"]))[0]
                    plan, best, attempts, reproduced = ex.minimise(first, "any")
                    path = ex.write_replay(first, plan, best, attempts, reproduced)
                    worst = "beyond rounding" if any(m["severity"] == "beyond" for r in bad for m in r["mismatches"]) else "rounding-level only"
                    report["mismatch"] = {
                        "runs": len(bad), "seeds": sorted(r["seed"] for r in bad)[:50], "operations": affected[:50], "exports": exports,
                        "verdicts_to_rederive": properties_for(exports), "replay_file": path, "worst": worst,
                        "minimised_ops": sum(len(t) for t in plan.threads), "minimised_from_ops": sum(len(t) for t in first["plan"]["threads"]),
                    }  # fmt: skip
                    changed.append(
                        f"simulate results depend on history/schedule/ambient state ({worst}): {len(affected)} operation(s) differ from their isolated reference in {len(bad)} run(s), "
                        f"e.g. {affected[0]}; API {exports[:4]}; verdicts to re-derive {properties_for(exports)}; seed={first['seed']} replay={path}"
                    )
        report.update(ex.report)
        errors = ex.errors
    finally:
        ex.cleanup()
    report["wall_s"] = round(time.monotonic() - t0, 1)
    report["premise_changed"] = changed
    report["audit_errors"] = errors
    report_path = args.report or os.path.join(HERE, "out", f"report-{args.tier}.json")
    os.makedirs(os.path.dirname(report_path), exist_ok=True)
    with open(report_path, "w") as f:
        json.dump(report, f, indent=1, sort_keys=True)
    sim = report.get("simulation", {})
    print(
        f"premise-audit tier={args.tier} static_findings={len(static['findings'])} ops={report.get('catalogue', {}).get('operations_selected')} "
        f"runs={sim.get('runs')} distinct_event_logs={sim.get('distinct_event_logs')} line_events={sim.get('reach', {}).get('line_events')} "
        f"line_switches={sim.get('reach', {}).get('line_switches')} faults={sim.get('faults_injected')} retries={sim.get('reach', {}).get('retries')} "
        f"seam_hits_from_package={sum(report.get('seams', {}).get('hits_from_package', {}).values())} "
        f"determinism={sim.get('determinism_reruns')}re-runs/{len(sim.get('determinism_divergences', []))}divergent wall={report['wall_s']}s"
    )
    for e in errors:
        print("AUDIT-ERROR " + e.replace("\n", "\n    "))
    for c in changed:
        print("PREMISE-CHANGED " + c)
    if changed:
        return 3
    if errors:
        return 2
    print("PREMISE-HOLDS no schedule/clock/I-O/entropy/shared-state surface found; every simulated run reproduced the isolated reference bit for bit")
    return 0


def run_replay(args) -> int:
    ex = Explorer(repo=args.repo, jobs=args.jobs, seeds=0, seed_base=0, label="premise")
    try:
        r, rec = ex.replay(args.replay)
        if r is None:
            print("AUDIT-ERROR replay could not be executed: " + "; ".join(ex.errors)[:500])
            return 2
        got = sorted({m["op"] for m in r["mismatches"]})
        same_log = r["event_digest"] == rec["expected"]["event_digest"]
        print(f"replay seed={rec['plan']['seed']} ops={sum(len(t) for t in rec['plan']['threads'])} event_digest={'identical' if same_log else 'DIFFERENT'} mismatching_ops={got}")
        for m in r["mismatches"][:5]:
            print(f"   {m['op']}: {m['severity']}: {m['why']}")
        if got:
            print(("REPLAY-REPRODUCED " if same_log else "REPLAY-REPRODUCED-WITH-DIFFERENT-SCHEDULE ") + args.replay)
            return 3
        print("REPLAY-CLEAN no operation differs from its isolated reference")
        return 0
    finally:
        ex.cleanup()


def main():
    ap = argparse.ArgumentParser()
    ap.add_argument("--tier", choices=("quick", "thorough"), default=os.environ.get("VERIF_TIER", "quick"))
    ap.add_argument("--leg", choices=("all", "static", "dynamic"), default="all")
    ap.add_argument("--repo", default=os.environ.get("PREMISE_AUDIT_REPO", "/repo"))
    ap.add_argument("--jobs", type=int, default=min(16, os.cpu_count() or 4))
    ap.add_argument("--seeds", type=int, default=None)
    ap.add_argument("--seed-base", type=int, default=int(os.environ.get("VERIF_SEED", "0")))
    ap.add_argument("--replay-sample", type=int, default=None)
    ap.add_argument("--no-cover", dest="cover", action="store_false")
    ap.add_argument("--cold-start", action="store_true", help="clear every JAX/equinox cache before each run (slower; schedules are cache-independent)")
    ap.add_argument("--run-wall-cap", type=float, default=900.0)
    ap.add_argument("--worker-timeout", type=float, default=3000.0)
    ap.add_argument("--min-budget", type=int, default=60)
    ap.add_argument("--replay")
    ap.add_argument("--replay-dir", default=os.path.join(HERE, "replays"))
    ap.add_argument("--report", default=None, help="where to write the JSON report (default audit/out/report-<tier>.json)")
    ap.add_argument("--ops-regex", default=None, help="restrict the dynamic legs to operations whose key matches (sensitivity runs; the audit proper uses all)")
    ap.add_argument("--selfcheck", action="store_true")
    args = ap.parse_args()
    if args.seeds is None:
        args.seeds = 64 if args.tier == "quick" else 1024
    if args.replay_sample is None:
        args.replay_sample = 8 if args.tier == "quick" else 64
    if args.selfcheck:
        import selfcheck

        sys.exit(selfcheck.main(args))
    sys.exit(run_replay(args) if args.replay else run_audit(args))


if __name__ == "__main__":
    main()
