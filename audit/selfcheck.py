"""Harness self-test for the premise audit (no part of the audited repository is judged here).

1. every static rule fires on a planted snippet, and none fires on the benign idioms the package
   really uses (local list building, attribute writes inside __init__, ...);
2. the simulator, in-process, (a) reproduces its own event log for the same plan, (b) reports a
   planted history-dependent operation, a planted clock-reading operation and a planted
   crash-sensitive operation, (c) reports nothing for pure operations under the same schedules.
"""

from __future__ import annotations

import os
import shutil
import sys
import tempfile
import textwrap

HERE = os.path.dirname(os.path.abspath(__file__))
sys.path.insert(0, HERE)

BAD_SNIPPETS = {
    "forbidden-import": "import time\n",
    "unlisted-import": "import requests\n",
    "memoisation": "import functools\n@functools.lru_cache\ndef f(x):\n    return x\n",
    "module-level-mutable": "_CACHE = {}\n",
    "class-level-mutable": "class A:\n    registry = []\n",
    "mutable-default": "def f(x, acc=[]):\n    return acc\n",
    "global-statement": "_N = 0\ndef f():\n    global _N\n    _N += 1\n",
    "nonlocal-statement": "def f():\n    n = 0\n    def g():\n        nonlocal n\n        n += 1\n    return g\n",
    "item-write-to-nonlocal": "_C = None\ndef f(k, v):\n    _C[k] = v\n",
    "mutating-call-on-nonlocal": "_L = None\ndef f(v):\n    _L.append(v)\n",
    "attribute-write-outside-constructor": "class A:\n    def step(self, u):\n        self.last = u\n        return u\n",
    "mutating-call-through-self": "class A:\n    def step(self, u):\n        self.hist.append(u)\n        return u\n",
    "forbidden-call": "def f(p):\n    return open(p).read()\n",
    "forbidden-attribute": "import numpy as np\ndef f():\n    return np.random.rand(3)\n",
    "generator": "def f(n):\n    for i in range(n):\n        yield i\n",
    "coroutine": "async def f():\n    return 1\n",
}
EXTRA_BAD = {
    "forbidden-call:jax.debug": ("forbidden-call", "import jax\ndef f(x):\n    jax.debug.print('x {}', x)\n    return x\n"),
    "forbidden-call:io_callback": ("forbidden-call", "from jax.experimental import io_callback\ndef f(x):\n    return io_callback(print, None, x)\n"),
    "forbidden-call:config": ("forbidden-call", "import jax\ndef f():\n    jax.config.update('jax_enable_x64', True)\n"),
    "object.__setattr__": ("attribute-write-outside-constructor", "class A:\n    def step(self, u):\n        object.__setattr__(self, 'last', u)\n        return u\n"),
}
BENIGN = textwrap.dedent(
    '''
    from itertools import product
    import jax.numpy as jnp
    import equinox as eqx
    __all__ = ["A", "f"]
    class A(eqx.Module):
        x: int
        coeffs: tuple[float, ...] = (0.0, 1.0)
        def __init__(self, x):
            self.x = x
            self._cache = [1, 2]
            self._cache.append(3)
        def __call__(self, u):
            out = []
            for i in range(3):
                out.append(u * i)
            d = {}
            d["a"] = out
            parts = [u] * 2 + [u]
            parts[0] = u + 1
            return jnp.stack(parts), d
    def f(n, *, flags=(True, False), scale=None):
        acc = 0
        acc += n
        idx = [slice(None)] * n
        idx[0] = 1
        def inner(y):
            z = [y]
            z.append(acc)
            return z
        return inner(acc), tuple(idx), list(product(flags, repeat=2))
    '''
)


def check_static() -> list[str]:
    import static_audit

    problems = []
    tmp = tempfile.mkdtemp(prefix="premise-selfcheck-")
    try:
        cases = {k: (k, v) for k, v in BAD_SNIPPETS.items()} | EXTRA_BAD
        for name, (rule, src) in cases.items():
            pkg = os.path.join(tmp, name.replace(":", "_").replace(".", "_"))
            os.makedirs(pkg)
            open(os.path.join(pkg, "mod.py"), "w").write(src)
            rules = {f["rule"] for f in static_audit.audit_package(pkg)["findings"]}
            if rule not in rules:
                problems.append(f"static rule {rule!r} did not fire on planted snippet {name!r} (fired: {sorted(rules)})")
        pkg = os.path.join(tmp, "benign")
        os.makedirs(pkg)
        open(os.path.join(pkg, "mod.py"), "w").write(BENIGN)
        found = static_audit.audit_package(pkg)["findings"]
        if found:
            problems.append(f"static audit flagged benign idioms: {found}")
        # forbidden things are tolerated under viz/ (unanchored plotting code) but recorded as info
        pkg = os.path.join(tmp, "vizpkg")
        os.makedirs(os.path.join(pkg, "viz"))
        open(os.path.join(pkg, "viz", "mod.py"), "w").write("import numpy as np\nimport matplotlib\n")
        if static_audit.audit_package(pkg)["findings"]:
            problems.append("static audit flagged viz imports")
    finally:
        shutil.rmtree(tmp, ignore_errors=True)
    return problems


def check_simulator() -> list[str]:
    import time as time_mod
    import warnings

    warnings.simplefilter("ignore")
    import jax.numpy as jnp

    import exponax as ex
    import workload as W
    from seams import Seams
    from sim import Plan, Simulator

    problems = []
    root = os.path.dirname(os.path.abspath(ex.__file__))
    exclude = (os.path.join(root, "viz") + "/",)

    state = {"n": 0, "flag": False}
    cat = W.Catalogue()

    def pure(pool, n=16):
        return ex.stepper.Burgers(1, 3.0, n, 0.05)(W._field(1, 1, n))

    def pure2(pool):
        return ex.stepper.KuramotoSivashinsky(1, 3.0, 15, 0.05)(W._field(1, 1, 15))

    def counter(pool):  # history-dependent
        state["n"] += 1
        return jnp.asarray(float(state["n"] > 1))

    def clocky(pool):  # hidden clock read
        return jnp.asarray(time_mod.time())

    def crashy(pool):  # flag not restored if the operation is abandoned half-way
        if state["flag"]:
            return jnp.asarray(-1.0)
        state["flag"] = True
        out = ex.stepper.Burgers(1, 3.0, 16, 0.05)(W._field(1, 1, 16, 1))
        state["flag"] = False
        return out

    for key, fn in (("pure", pure), ("pure2", pure2), ("counter", counter), ("clocky", clocky), ("crashy", crashy)):
        cat.add(W.Op(key, fn, (), key))
    cat.pool_builders = {}

    real_stdout = sys.stdout
    sys.stdout = open(os.devnull, "w")
    try:
        reference = {}
        for key, op in cat.ops.items():
            state.update(n=0, flag=False)
            reference[key] = ["ok", W.digest_tree(op.fn({}))]

        seams = Seams(root, exclude).install(simulate_clock=True)
        try:

            def run(plan):
                state.update(n=0, flag=False)
                sim = Simulator(plan, cat, seams, root, exclude, wall_cap=120)
                results, evd = sim.run()
                bad = sorted({k for _, _, k, st, dg, _x, _l in results if st != "crashed" and [st, dg] != reference[k]})
                return bad, evd, sim.stats

            base = dict(p_line=0.02, p_fault=0.3, p_crash=0.0, faults=["clock_jump", "reseed", "gc", "churn"], max_crashes=0)
            p1 = Plan(seed=1, threads=[["pure", "pure2", "pure"], ["pure2", "pure", "pure2"]], **base)
            bad1, ev1, st1 = run(p1)
            bad1b, ev1b, _ = run(p1)
            if bad1 or bad1b:
                problems.append(f"simulator reported pure operations: {bad1 or bad1b}")
            if ev1 != ev1b:
                problems.append("simulator event log not reproducible for the same plan in one process")
            if st1["line_events"] == 0 or st1["line_switches"] == 0:
                problems.append(f"no line-level pre-emption happened inside package code: {st1}")
            bad2, _, _ = run(Plan(seed=2, threads=[["counter", "pure"], ["counter"]], **base))
            if bad2 != ["counter"]:
                problems.append(f"planted history-dependent operation not (only) reported: {bad2}")
            bad3, _, _ = run(Plan(seed=3, threads=[["clocky", "pure"]], **base))
            if bad3 != ["clocky"]:
                problems.append(f"planted clock-reading operation not (only) reported: {bad3}")
            # a crash is injected at some package line of the first crashy op; the second must then differ
            found = False
            for s in range(4, 24):
                bad4, _, st4 = run(Plan(seed=s, threads=[["crashy", "crashy", "pure"]], p_line=0.0, p_fault=0.0, p_crash=0.01, faults=["crash"], max_crashes=1))
                if "pure" in bad4:
                    problems.append("pure operation reported after an injected crash")
                if st4["faults"]["crash"] and bad4 == ["crashy"]:
                    found = True
                    break
            if not found:
                problems.append("planted crash-sensitive operation never reported in 20 seeds")
        finally:
            seams.remove()
    finally:
        sys.stdout = real_stdout
    return problems


def main(args=None) -> int:
    problems = check_static()
    problems += check_simulator()
    for p in problems:
        print("SELFCHECK-FAILED " + p)
    if problems:
        return 2
    print("SELFCHECK-OK static rules and simulator oracles behave as designed")
    return 0


if __name__ == "__main__":
    sys.exit(main())
