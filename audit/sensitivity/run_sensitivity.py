#!/venv/bin/python
"""Sensitivity proof for the premise audit (guidance: "break it on purpose, confirm some run fails").

For every *.diff in this directory: create a scratch git worktree of the audited repository outside
/repo and /verif, apply the diff, run the premise audit against it, record which legs noticed
(static / seam / simulate), replay the minimised file against the mutant (must reproduce) and
against the unchanged tree (must be clean), then remove the worktree.

The planted changes are synthetic stand-ins for the repository changes of DESIGN.md §7
(memoisation, hidden entropy, shared scratch state, non-restored flags); they are not candidate
"seeded" property breakers and are never applied to /repo.
"""
import glob
import json
import os
import shutil
import subprocess
import sys
import tempfile

HERE = os.path.dirname(os.path.abspath(__file__))
AUDIT = os.path.join(os.path.dirname(HERE), "premise_audit.py")
REPO = os.environ.get("PREMISE_AUDIT_REPO", "/repo")


def sh(cmd, **kw):
    return subprocess.run(cmd, shell=isinstance(cmd, str), capture_output=True, text=True, **kw)


def main():
    only = sys.argv[1:]
    seeds = os.environ.get("SENS_SEEDS", "24")
    results = {}
    res_path = os.path.join(HERE, "results.json")
    if os.path.exists(res_path):
        results = json.load(open(res_path))
    for diff in sorted(glob.glob(os.path.join(HERE, "*.diff"))):
        name = os.path.basename(diff)[:-5]
        if only and name not in only:
            continue
        tmp = tempfile.mkdtemp(prefix="premise-sens-")
        wt = os.path.join(tmp, "wt")
        try:
            r = sh(["git", "-C", REPO, "worktree", "add", "--detach", wt])
            assert r.returncode == 0, r.stderr
            r = sh(["git", "-C", wt, "apply", diff])
            assert r.returncode == 0, r.stderr
            rdir = os.path.join(tmp, "replays")
            rep = os.path.join(tmp, "report.json")
            scope = {"M1": "D=3,N=6|D=2,N=8", "M2": "^ic:|build_ic_set", "M3": "D=1,N=16|D=1,N=15", "M4": "D=1,N=16"}.get(name[:2])
            cmd = ["/venv/bin/python", AUDIT, "--repo", wt, "--seeds", seeds, "--replay-dir", rdir, "--report", rep]
            if scope and os.environ.get("SENS_FULL") != "1":
                cmd += ["--ops-regex", scope]  # a slice of the catalogue around the planted change keeps a run at minutes
            p = sh(cmd)
            lines = p.stdout.splitlines()
            changed = [l for l in lines if l.startswith("PREMISE-CHANGED")]
            legs = sorted({l.split()[1] for l in changed})
            rec = {
                "exit": p.returncode,
                "legs_that_noticed": legs,
                "premise_changed_lines": [l[:400] for l in changed],
                "audit_errors": len([l for l in lines if l.startswith("AUDIT-ERROR")]),
                "summary": next((l for l in lines if l.startswith("premise-audit")), "")[:600],
            }
            replays = sorted(glob.glob(os.path.join(rdir, "*.json")))
            if replays:
                rj = json.load(open(replays[0]))
                rec["minimised_plan"] = rj["plan"]
                rec["scope"] = scope
                rec["minimisation_attempts"] = rj["minimisation_attempts"]
                on_mutant = sh(["/venv/bin/python", AUDIT, "--repo", wt, "--replay", replays[0]])
                on_clean = sh(["/venv/bin/python", AUDIT, "--repo", REPO, "--replay", replays[0]])
                rec["replay_on_mutant"] = on_mutant.stdout.strip().splitlines()[-1:] + [on_mutant.returncode]
                rec["replay_on_unchanged_tree"] = on_clean.stdout.strip().splitlines()[-1:] + [on_clean.returncode]
            results[name] = rec
            print(name, json.dumps(rec, indent=1)[:3000], flush=True)
        finally:
            sh(["git", "-C", REPO, "worktree", "remove", "--force", wt])
            shutil.rmtree(tmp, ignore_errors=True)
        with open(res_path, "w") as f:
            json.dump(results, f, indent=1, sort_keys=True)


if __name__ == "__main__":
    main()
