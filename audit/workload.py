"""Operation catalogue for the premise audit.

Every operation is a *closed thunk*: it builds everything it needs from literals (plus,
optionally, objects from the run's shared pool) and returns a pytree whose array leaves are
digested bit for bit. If exponax is what DESIGN.md §2 says it is -- pure functions of explicit
arguments -- the digest of an operation is the same whatever ran before it, whatever runs
concurrently with it, and whatever the ambient process state is. The simulator (sim.py)
searches over exactly those three things.

Nothing in here draws randomness: inputs are closed-form arrays, keys are literal integers.
"""

from __future__ import annotations

import hashlib
import math
from dataclasses import dataclass, field
from typing import Any, Callable

import numpy as np

# --------------------------------------------------------------------------------------
# inputs


def _field(num_channels: int, num_spatial_dims: int, num_points: int, variant: int = 0):
    """Closed-form smooth-ish state of shape (C, N, ..., N); no RNG involved."""
    import jax.numpy as jnp

    shape = (num_channels,) + (num_points,) * num_spatial_dims
    idx = np.indices(shape).astype(np.float64)
    phase = 0.37 * idx[0] + 0.11 * variant
    weights = (1.3, 0.7, 2.1)
    for d in range(num_spatial_dims):
        phase = phase + weights[d] * idx[d + 1] * (2.0 * math.pi / num_points) * (d + 1)
    u = np.sin(phase) + 0.25 * np.cos(2.0 * phase + 0.5) + 0.05 * (variant + 1)
    return jnp.asarray(u, dtype=jnp.zeros(()).dtype)


def digest_tree(tree: Any) -> str:
    """sha256 over (structure, dtype, shape, raw bytes) of every leaf; Python scalars by repr."""
    import jax

    h = hashlib.sha256()
    leaves, treedef = jax.tree_util.tree_flatten(tree)
    h.update(str(treedef).encode())
    for leaf in leaves:
        if hasattr(leaf, "dtype") and hasattr(leaf, "shape"):
            a = np.asarray(leaf)
            h.update(str(a.dtype).encode())
            h.update(str(a.shape).encode())
            h.update(np.ascontiguousarray(a).tobytes())
        else:
            h.update(repr(leaf).encode())
    return h.hexdigest()


def flatten_tree(tree: Any) -> list:
    """Leaves as numpy arrays / Python scalars (for tolerance comparison after a digest mismatch)."""
    import jax

    out = []
    for leaf in jax.tree_util.tree_leaves(tree):
        out.append(np.asarray(leaf) if hasattr(leaf, "dtype") and hasattr(leaf, "shape") else leaf)
    return out


def _array_leaves(module: Any):
    import equinox as eqx
    import jax

    return [x for x in jax.tree_util.tree_leaves(module) if eqx.is_array(x)]


# --------------------------------------------------------------------------------------
# catalogue


@dataclass(frozen=True)
class Op:
    key: str
    fn: Callable[[dict], Any]  # fn(pool) -> pytree
    exports: tuple[str, ...]  # fully qualified public names this op exercises
    group: str  # scheduling group: ops of one group share jit cache keys
    atomic: bool = False  # True: no line-level pre-emption inside (jit tracing; see sim.py)
    cost: int = 1  # rough relative cost, used to balance swarm subsets
    uses_pool: bool = False


class Pool:
    """Objects shared by all simulated callers of a run; built lazily on first use, once per
    (configuration, precision session)."""

    def __init__(self, builders: dict):
        self._builders = builders
        self._objs: dict = {}

    def get(self, group: str):
        import jax

        key = (group, bool(jax.config.jax_enable_x64))
        if key not in self._objs:
            obj = self._builders[group]()
            self._objs.setdefault(key, obj)  # a concurrent builder may have finished first; keep one
        return self._objs[key]


@dataclass
class Catalogue:
    ops: dict[str, Op] = field(default_factory=dict)
    pool_builders: dict[str, Callable[[], Any]] = field(default_factory=dict)

    def add(self, op: Op):
        assert op.key not in self.ops, op.key
        self.ops[op.key] = op

    def covered_exports(self) -> set[str]:
        out: set[str] = set()
        for op in self.ops.values():
            out.update(op.exports)
        return out


# stepper configurations: (qualified class name, dims, kwargs, sizes per dim)
_N = {1: (16, 15), 2: (8, 9), 3: (6,)}
_L = 3.0
_DT = 0.05


def _stepper_configs():
    lin = [
        ("stepper.Advection", {}, (1, 2, 3)),
        ("stepper.Diffusion", {}, (1, 2, 3)),
        ("stepper.AdvectionDiffusion", {}, (1, 2, 3)),
        ("stepper.Dispersion", {}, (1, 2, 3)),
        ("stepper.HyperDiffusion", {}, (1, 2, 3)),
        ("stepper.Wave", {}, (1, 2, 3)),
        ("stepper.generic.GeneralLinearStepper", {}, (1, 2, 3)),
    ]
    nonlin = [
        ("stepper.Burgers", {}, (1, 2, 3)),
        ("stepper.Burgers", {"order": 4, "conservative": True}, (1, 2)),
        ("stepper.Burgers", {"order": 1, "single_channel": True}, (2,)),
        ("stepper.KortewegDeVries", {}, (1, 2, 3)),
        ("stepper.KuramotoSivashinsky", {}, (1, 2, 3)),
        ("stepper.KuramotoSivashinsky", {"order": 3}, (1,)),
        ("stepper.KuramotoSivashinskyConservative", {}, (1, 2)),
        ("stepper.generic.GeneralConvectionStepper", {}, (1, 2, 3)),
        ("stepper.generic.GeneralGradientNormStepper", {}, (1, 2)),
        ("stepper.generic.GeneralPolynomialStepper", {}, (1, 2)),
        ("stepper.generic.GeneralNonlinearStepper", {}, (1, 2, 3)),
        ("stepper.reaction.AllenCahn", {}, (1, 2)),
        ("stepper.reaction.CahnHilliard", {}, (1, 2)),
        ("stepper.reaction.FisherKPP", {}, (1, 2)),
        ("stepper.reaction.GrayScott", {}, (1, 2)),
        ("stepper.reaction.SwiftHohenberg", {}, (1, 2)),
        ("stepper.NavierStokesVorticity", {}, (2,)),
        ("stepper.KolmogorovFlowVorticity", {"injection_mode": 2}, (2,)),
        ("stepper.generic.GeneralVorticityConvectionStepper", {}, (2,)),
        (
            "stepper.generic.GeneralVorticityConvectionStepper",
            {"injection_mode": 2, "injection_scale": 0.5},
            (2,),
        ),
        ("stepper.NavierStokesVelocity", {}, (3,)),
        ("stepper.KolmogorovFlowVelocity", {"injection_mode": 2}, (3,)),
    ]
    out = []
    for name, kw, dims in lin + nonlin:
        for d in dims:
            for n in _N[d]:
                out.append((name, d, n, kw, False))
    norm = [
        ("stepper.generic.NormalizedLinearStepper", {}, (1, 2, 3)),
        ("stepper.generic.NormalizedConvectionStepper", {}, (1, 2)),
        ("stepper.generic.NormalizedGradientNormStepper", {}, (1, 2)),
        ("stepper.generic.NormalizedPolynomialStepper", {}, (1, 2)),
        ("stepper.generic.NormalizedNonlinearStepper", {}, (1, 2)),
        ("stepper.generic.DifficultyLinearStepper", {}, (1, 2, 3)),
        ("stepper.generic.DifficultyConvectionStepper", {}, (1, 2)),
        ("stepper.generic.DifficultyGradientNormStepper", {}, (1, 2)),
        ("stepper.generic.DifficultyPolynomialStepper", {}, (1, 2)),
        ("stepper.generic.DifficultyNonlinearStepper", {}, (1, 2)),
        ("stepper.generic.DifficultyLinearStepperSimple", {}, (1, 2)),
    ]
    for name, kw, dims in norm:
        for d in dims:
            n = _N[d][0]
            out.append((name, d, n, kw, True))
    return out


def _resolve(qualname: str):
    import exponax as ex

    obj = ex
    for part in qualname.split("."):
        obj = getattr(obj, part)
    return obj


def _cfg_key(name, d, n, kw):
    extra = ",".join(f"{k}={v}" for k, v in sorted(kw.items()))
    return f"{name}[D={d},N={n}{',' + extra if extra else ''}]"


def _build_stepper(name, d, n, kw, normalized):
    cls = _resolve(name)
    if normalized:
        return cls(d, n, **kw)
    return cls(d, _L, n, _DT, **kw)


def build_catalogue() -> Catalogue:
    import equinox as eqx
    import jax
    import jax.numpy as jnp

    import exponax as ex

    cat = Catalogue()

    # ---------------------------------------------------------------- steppers
    for name, d, n, kw, normalized in _stepper_configs():
        ck = _cfg_key(name, d, n, kw)
        exports = (f"exponax.{name}",)
        big = d == 3

        def mk(name=name, d=d, n=n, kw=kw, normalized=normalized):
            return _build_stepper(name, d, n, kw, normalized)

        def u0(stepper, d=d, n=n, variant=0):
            return _field(stepper.num_channels, d, n, variant)

        cat.add(
            Op(
                f"construct:{ck}",
                lambda pool, mk=mk: _array_leaves(mk()),
                exports,
                ck,
                cost=2 if big else 1,
            )
        )
        cat.add(
            Op(
                f"eager:{ck}",
                lambda pool, mk=mk, u0=u0: (lambda s: s(u0(s)))(mk()),
                exports,
                ck,
                cost=3 if big else 2,
            )
        )
        cat.add(
            Op(
                f"jit:{ck}",
                lambda pool, mk=mk, u0=u0: (lambda s: eqx.filter_jit(s)(u0(s)))(mk()),
                exports,
                ck,
                atomic=True,
                cost=4 if big else 3,
            )
        )
        if not big:
            cat.add(
                Op(
                    f"vmap:{ck}",
                    lambda pool, mk=mk, u0=u0: (
                        lambda s: jax.vmap(s)(jnp.stack([u0(s), u0(s, variant=1)]))
                    )(mk()),
                    exports,
                    ck,
                    cost=3,
                )
            )
            cat.add(
                Op(
                    f"rollout:{ck}",
                    lambda pool, mk=mk, u0=u0: (
                        lambda s: ex.rollout(s, 3, include_init=True)(u0(s))
                    )(mk()),
                    exports + ("exponax.rollout",),
                    ck,
                    cost=3,
                )
            )
            cat.add(
                Op(
                    f"repeated:{ck}",
                    lambda pool, mk=mk, u0=u0: (
                        lambda s: ex.RepeatedStepper(s, 2)(u0(s))
                    )(mk()),
                    exports + ("exponax.RepeatedStepper",),
                    ck,
                    cost=3,
                )
            )
        if not big and n == _N[d][0] and not normalized:
            # the stepper is *constructed* inside the traced function (parameter passed as a traced value)
            def _jit_construct(pool, name=name, d=d, n=n, kw=kw):
                cls = _resolve(name)

                def run(scale):
                    s = cls(d, _L, n, _DT, **kw)  # first thing this op does with the class: build it under the trace
                    return ex.rollout(s, 2)(_field(s.num_channels, d, n) * scale)

                return eqx.filter_jit(run)(jnp.asarray(1.0))

            cat.add(Op(f"jit-construct:{ck}", _jit_construct, exports + ("exponax.rollout",), ck, atomic=True, cost=4))
        if not big and n == _N[d][0]:
            # derivative programs (the API surface C07 is anchored in)
            cat.add(
                Op(
                    f"grad:{ck}",
                    lambda pool, mk=mk, u0=u0: (
                        lambda s: jax.grad(lambda u: jnp.sum(s(u) ** 2))(u0(s))
                    )(mk()),
                    exports,
                    ck,
                    cost=3,
                )
            )
            cat.add(
                Op(
                    f"jvp:{ck}",
                    lambda pool, mk=mk, u0=u0: (
                        lambda s: jax.jvp(s, (u0(s),), (u0(s, variant=1),))
                    )(mk()),
                    exports,
                    ck,
                    cost=3,
                )
            )
        # one object shared by all caller threads of a run (built once per run)
        if not big and n == _N[d][0]:
            cat.pool_builders[ck] = mk
            cat.add(
                Op(
                    f"shared-call:{ck}",
                    lambda pool, ck=ck, u0=u0: pool.get(ck)(u0(pool.get(ck), variant=2)),
                    exports,
                    ck,
                    uses_pool=True,
                    cost=2,
                )
            )

    # one-option twins: same class, same (D, N), exactly one of dt / L / a coefficient changed. They share the
    # scheduling group of the base configuration so that base and twin meet in the same simulated runs --
    # anything memoised on too small a key has something to confuse.
    coeff_twin = {
        "stepper.Advection": {"velocity": 0.5},
        "stepper.Diffusion": {"diffusivity": 0.03},
        "stepper.AdvectionDiffusion": {"velocity": 0.5},
        "stepper.Dispersion": {"dispersivity": 0.5},
        "stepper.HyperDiffusion": {"hyper_diffusivity": 3e-4},
        "stepper.Wave": {"speed_of_sound": 0.5},
        "stepper.generic.GeneralLinearStepper": {"linear_coefficients": (0.0, -0.2, 0.02)},
        "stepper.Burgers": {"diffusivity": 0.05},
        "stepper.KortewegDeVries": {"dispersivity": 0.5},
        "stepper.KuramotoSivashinsky": {"second_order_scale": 1.2},
        "stepper.KuramotoSivashinskyConservative": {"second_order_scale": 1.2},
        "stepper.generic.GeneralConvectionStepper": {"convection_scale": 0.5},
        "stepper.generic.GeneralGradientNormStepper": {"gradient_norm_scale": 0.5},
        "stepper.generic.GeneralPolynomialStepper": {"polynomial_coefficients": (0.0, 0.0, -5.0)},
        "stepper.generic.GeneralNonlinearStepper": {"nonlinear_coefficients": (0.0, -0.5, 0.0)},
        "stepper.reaction.AllenCahn": {"diffusivity": 0.01},
        "stepper.reaction.CahnHilliard": {"gamma": 2e-3},
        "stepper.reaction.FisherKPP": {"reactivity": 0.5},
        "stepper.reaction.GrayScott": {"feed_rate": 0.03},
        "stepper.reaction.SwiftHohenberg": {"reactivity": 0.5},
        "stepper.NavierStokesVorticity": {"diffusivity": 0.02},
    }
    for name, ckw in coeff_twin.items():
        for d in (1, 2):
            if name == "stepper.NavierStokesVorticity" and d == 1:
                continue
            n = _N[d][0]
            base = _cfg_key(name, d, n, {})
            for tname, L_, dt_, kw_ in (("dt=0.1", _L, 0.1, {}), ("L=2.0", 2.0, _DT, {}), ("coeff", _L, _DT, ckw), ("order=3", _L, _DT, {"order": 3}), ("order=4", _L, _DT, {"order": 4})):
                if tname.startswith("order=") and ("order" not in _resolve(name).__init__.__code__.co_varnames):
                    continue

                def mk(name=name, d=d, n=n, L_=L_, dt_=dt_, kw_=kw_):
                    return _resolve(name)(d, L_, n, dt_, **kw_)

                tk = f"{name}[D={d},N={n},twin:{tname}]"
                cat.add(Op(f"construct:{tk}", lambda pool, mk=mk: _array_leaves(mk()), (f"exponax.{name}",), base, cost=1))
                cat.add(
                    Op(
                        f"eager:{tk}",
                        lambda pool, mk=mk, d=d, n=n: (lambda s: s(_field(s.num_channels, d, n)))(mk()),
                        (f"exponax.{name}",),
                        base,
                        cost=2,
                    )
                )

    # steppers built under filter_vmap over a constructor parameter (README "parameter sweeps")
    sweeps = [
        # stepper.Diffusion is deliberately absent: building it under filter_vmap over `diffusivity`
        # raises (einsum on a traced scalar) on the unchanged tree -- an input-level observation
        # about C06 recorded in DESIGN.md §8, not something this audit judges
        ("stepper.Burgers", "diffusivity", (0.05, 0.1), {}),
        ("stepper.KuramotoSivashinsky", "second_order_scale", (1.0, 1.2), {}),
        ("stepper.reaction.FisherKPP", "reactivity", (1.0, 0.5), {}),
    ]
    for name, par, values, kw in sweeps:
        for d in (1, 2):
            n = _N[d][0]
            ck = _cfg_key(name, d, n, {"sweep": par})

            def _sweep(pool, name=name, par=par, values=values, kw=kw, d=d, n=n):
                cls = _resolve(name)
                steppers = eqx.filter_vmap(lambda v: cls(d, _L, n, _DT, **{par: v}, **kw))(jnp.asarray(values))
                u = _field(steppers.num_channels, d, n)
                out = eqx.filter_vmap(lambda s, x: s(x), in_axes=(eqx.if_array(0), None))(steppers, u)
                return _array_leaves(steppers), out

            cat.add(Op(f"param-vmap:{ck}", _sweep, (f"exponax.{name}",), ck, cost=4))

    # deprecated alias (emits a DeprecationWarning through `warnings`, nothing else)
    def _deprecated_alias(pool):
        import warnings

        with warnings.catch_warnings():
            warnings.simplefilter("ignore")
            s = ex.stepper.generic.DiffultyLinearStepperSimple(1, 16)
        return s(_field(1, 1, 16))

    cat.add(
        Op(
            "eager:DiffultyLinearStepperSimple",
            _deprecated_alias,
            ("exponax.stepper.generic.DiffultyLinearStepperSimple",),
            "alias",
        )
    )

    # ---------------------------------------------------------------- wrappers & trajectory utilities
    def _forced(pool):
        s = ex.ForcedStepper(ex.stepper.Diffusion(1, _L, 16, _DT))
        u = _field(1, 1, 16)
        f = _field(1, 1, 16, 3)
        return s(u, f), ex.rollout(s, 3, takes_aux=True, constant_aux=True)(u, f)

    cat.add(Op("forced:Diffusion", _forced, ("exponax.ForcedStepper", "exponax.rollout"), "traj"))

    def _repeat(pool):
        s = ex.stepper.Burgers(1, _L, 16, _DT)
        u = _field(1, 1, 16)
        return ex.repeat(s, 4)(u)

    cat.add(Op("repeat:Burgers", _repeat, ("exponax.repeat",), "traj"))

    def _rollout_aux(pool):
        s = ex.ForcedStepper(ex.stepper.Advection(1, _L, 16, _DT))
        u = _field(1, 1, 16)
        fs = jnp.stack([_field(1, 1, 16, v) for v in range(4)])
        return (
            ex.rollout(s, 4, takes_aux=True, constant_aux=False)(u, fs),
            ex.repeat(s, 4, takes_aux=True, constant_aux=False)(u, fs),
        )

    cat.add(Op("rollout-aux:Advection", _rollout_aux, ("exponax.rollout", "exponax.repeat"), "traj"))

    def _substack(pool):
        trj = jnp.stack([_field(1, 1, 16, v) for v in range(6)])
        return (
            ex.stack_sub_trajectories(trj, 3),
            ex.stack_sub_trajectories({"a": trj, "b": trj[:, :, :4]}, 2),
        )

    cat.add(Op("stack_sub_trajectories", _substack, ("exponax.stack_sub_trajectories",), "traj"))
    for n_steps in (0, 1, 2, 5):
        for include_init in (False, True):

            def _roll(pool, n_steps=n_steps, include_init=include_init):
                s = ex.stepper.KuramotoSivashinsky(1, _L, 16, _DT)
                u = _field(1, 1, 16)
                return ex.rollout(s, n_steps, include_init=include_init)(u), ex.repeat(s, n_steps)(u)

            cat.add(Op(f"rollout-n:KS[n={n_steps},init={include_init}]", _roll, ("exponax.rollout", "exponax.repeat"), "traj", cost=2))
    for sub in (1, 2, 3):

        def _rep(pool, sub=sub):
            s = ex.RepeatedStepper(ex.stepper.Burgers(1, _L, 16, _DT), sub)
            return s(_field(1, 1, 16)), _array_leaves(s)

        cat.add(Op(f"repeated-n:Burgers[sub={sub}]", _rep, ("exponax.RepeatedStepper",), "traj", cost=2))
    cat.pool_builders["wrapper:repeated"] = lambda: ex.RepeatedStepper(ex.stepper.KortewegDeVries(1, _L, 16, _DT), 2)
    cat.pool_builders["wrapper:forced"] = lambda: ex.ForcedStepper(ex.stepper.AdvectionDiffusion(1, _L, 16, _DT))
    for v in (0, 1):
        cat.add(
            Op(
                f"shared-repeated:KdV[variant={v}]",
                lambda pool, v=v: pool.get("wrapper:repeated")(_field(1, 1, 16, v)),
                ("exponax.RepeatedStepper",),
                "traj",
                uses_pool=True,
                cost=2,
            )
        )
        cat.add(
            Op(
                f"shared-forced:AdvectionDiffusion[variant={v}]",
                lambda pool, v=v: pool.get("wrapper:forced")(_field(1, 1, 16, v), _field(1, 1, 16, v + 2)),
                ("exponax.ForcedStepper",),
                "traj",
                uses_pool=True,
                cost=2,
            )
        )
    # trajectory *functions* built once per run and called by every caller (the README idiom: build the rollout
    # function once, map it over many initial conditions)
    cat.pool_builders["fn:rollout"] = lambda: ex.rollout(ex.stepper.KortewegDeVries(1, _L, 16, _DT), 3, include_init=True)
    cat.pool_builders["fn:rollout-noinit"] = lambda: ex.rollout(ex.stepper.Burgers(1, _L, 16, _DT), 2)
    cat.pool_builders["fn:repeat"] = lambda: ex.repeat(ex.stepper.KuramotoSivashinsky(1, _L, 16, _DT), 3)
    cat.pool_builders["fn:rollout-aux"] = lambda: ex.rollout(ex.ForcedStepper(ex.stepper.Diffusion(1, _L, 16, _DT)), 3, include_init=True, takes_aux=True, constant_aux=True)
    for v in (0, 1, 2):
        for fname in ("fn:rollout", "fn:rollout-noinit", "fn:repeat"):
            cat.add(Op(f"shared-{fname}[variant={v}]", lambda pool, fname=fname, v=v: pool.get(fname)(_field(1, 1, 16, v)), ("exponax.rollout", "exponax.repeat"), "traj", uses_pool=True, cost=2))
        cat.add(Op(f"shared-fn:rollout-aux[variant={v}]", lambda pool, v=v: pool.get("fn:rollout-aux")(_field(1, 1, 16, v), _field(1, 1, 16, v + 3)), ("exponax.rollout", "exponax.ForcedStepper"), "traj", uses_pool=True, cost=2))
        cat.add(
            Op(
                f"shared-fn:rollout-jvp[variant={v}]",
                lambda pool, v=v: jax.jvp(pool.get("fn:rollout"), (_field(1, 1, 16, v),), (_field(1, 1, 16, v + 1),)),
                ("exponax.rollout",),
                "traj",
                uses_pool=True,
                cost=3,
            )
        )
        cat.add(
            Op(
                f"shared-fn:rollout-grad[variant={v}]",
                lambda pool, v=v: jax.grad(lambda u: jnp.sum(pool.get("fn:rollout")(u) ** 2))(_field(1, 1, 16, v)),
                ("exponax.rollout",),
                "traj",
                uses_pool=True,
                cost=3,
            )
        )
    for sub_len, T in ((1, 6), (2, 6), (4, 6), (6, 6), (2, 5), (4, 5)):
        cat.add(
            Op(
                f"stack_sub_trajectories[sub_len={sub_len},T={T}]",
                lambda pool, sub_len=sub_len, T=T: ex.stack_sub_trajectories(jnp.stack([_field(1, 1, 16, v) for v in range(T)]), sub_len),
                ("exponax.stack_sub_trajectories",),
                "traj",
            )
        )


    # ---------------------------------------------------------------- spectral utilities
    for d in (1, 2, 3):
        n = _N[d][0]

        def _spectral(pool, d=d, n=n):
            u = _field(2, d, n)
            uh = ex.fft(u, num_spatial_dims=d)
            sp = ex.spectral
            dop = sp.build_derivative_operator(d, _L, n)
            out = [
                uh,
                ex.ifft(uh, num_spatial_dims=d, num_points=n),
                ex.derivative(u, _L, order=1),
                ex.derivative(u, _L, order=2),
                ex.get_spectrum(u, power=True),
                ex.get_spectrum(u, power=False, radial_binning="average"),
                ex.make_grid(d, _L, n),
                ex.make_grid(d, _L, n, full=True, zero_centered=True),
                sp.build_wavenumbers(d, n),
                sp.build_scaled_wavenumbers(d, _L, n),
                dop,
                sp.build_laplace_operator(dop, order=2),
                sp.build_laplace_operator(dop, order=4),
                sp.build_gradient_inner_product_operator(dop, jnp.ones((d,)), order=1),
                sp.low_pass_filter_mask(d, n, cutoff=max(1, n // 3)),
                sp.oddball_filter_mask(d, n),
                sp.build_scaling_array(d, n, mode="norm_compensation"),
                sp.build_scaling_array(d, n, mode="reconstruction"),
                sp.build_scaling_array(d, n, mode="coef_extraction"),
                sp.get_fourier_coefficients(u),
                sp.spatial_shape(d, n),
                sp.wavenumber_shape(d, n),
                sp.space_indices(d),
            ]
            if d > 1:
                v = _field(d, d, n)
                out.append(sp.make_incompressible(v))
            return out

        cat.add(
            Op(
                f"spectral[D={d}]",
                _spectral,
                (
                    "exponax.fft",
                    "exponax.ifft",
                    "exponax.derivative",
                    "exponax.get_spectrum",
                    "exponax.make_grid",
                    "exponax.spectral",
                ),
                f"spectral{d}",
                cost=3,
            )
        )

        def _interp(pool, d=d, n=n):
            u = _field(2, d, n)
            fi = ex.FourierInterpolator(u, domain_extent=_L)
            x = jnp.asarray([0.3, 1.1, 2.2][:d])
            return (
                fi(x),
                ex.map_between_resolutions(u, n + 3),
                ex.map_between_resolutions(u, n - 2),
                ex.map_between_resolutions(u, n + 4, oddball_zero=False),
            )

        cat.add(
            Op(
                f"interpolation[D={d}]",
                _interp,
                ("exponax.FourierInterpolator", "exponax.map_between_resolutions"),
                f"interp{d}",
                cost=2,
            )
        )

        def _poisson(pool, d=d, n=n):
            f = _field(1, d, n)
            return ex.poisson.Poisson(d, _L, n)(f), ex.poisson.Poisson(d, _L, n, order=4)(f)

        cat.add(Op(f"poisson[D={d}]", _poisson, ("exponax.poisson",), f"poisson{d}"))

        def _metrics(pool, d=d, n=n):
            m = ex.metrics
            a = _field(2, d, n)
            b = _field(2, d, n, 1)
            out = []
            for fn in (m.MAE, m.MSE, m.RMSE, m.fourier_MAE, m.fourier_MSE, m.fourier_RMSE, m.H1_MAE, m.H1_MSE, m.H1_RMSE):
                out.append(fn(a, b, domain_extent=_L))
                out.append(fn(a, domain_extent=_L))
            for fn in (
                m.nMAE, m.nMSE, m.nRMSE, m.sMAE, m.sMSE, m.sRMSE,
                m.fourier_nMAE, m.fourier_nMSE, m.fourier_nRMSE,
                m.H1_nMAE, m.H1_nMSE, m.H1_nRMSE,
            ):  # fmt: skip
                out.append(fn(a, b, domain_extent=_L))
            out.append(m.correlation(a, b))
            out.append(m.spatial_norm(a, b, mode="symmetric", domain_extent=_L, inner_exponent=1.0))
            out.append(m.fourier_norm(a, b, mode="normalized", domain_extent=_L, low=1, high=3, derivative_order=1.0))
            out.append(m.spatial_aggregator(a[0], num_spatial_dims=d, domain_extent=_L))
            out.append(m.fourier_aggregator(a[0], num_spatial_dims=d, domain_extent=_L))
            out.append(m.mean_metric(m.nRMSE, jnp.stack([a, b]), jnp.stack([b, a])))
            return out

        cat.add(
            Op(
                f"metrics[D={d}]",
                _metrics,
                tuple(f"exponax.metrics.{n_}" for n_ in ex.metrics.__all__),
                f"metrics{d}",
                cost=4,
            )
        )

    cat.add(Op("wrap_bc", lambda pool: ex.wrap_bc(_field(2, 1, 16)), ("exponax.wrap_bc",), "misc"))

    # ---------------------------------------------------------------- nonlinear functions and integrators, called directly
    def _nonlin(pool, d):
        nf = ex.nonlin_fun
        n = _N[d][0]
        dop = ex.spectral.build_derivative_operator(d, _L, n)
        uh1 = ex.fft(_field(1, d, n), num_spatial_dims=d)
        uhd = ex.fft(_field(d, d, n), num_spatial_dims=d)
        out = [
            nf.ConvectionNonlinearFun(d, n, derivative_operator=dop)(uhd),
            nf.ConvectionNonlinearFun(d, n, derivative_operator=dop, conservative=True, single_channel=True)(uh1),
            nf.GeneralNonlinearFun(d, n, derivative_operator=dop, dealiasing_fraction=2 / 3, scale_list=(0.3, -1.0, 0.2))(uh1),
            nf.GradientNormNonlinearFun(d, n, derivative_operator=dop, dealiasing_fraction=2 / 3)(uh1),
            nf.PolynomialNonlinearFun(d, n, dealiasing_fraction=0.5, coefficients=(0.0, 1.0, -1.0, 0.5))(uh1),
            nf.ZeroNonlinearFun(d, n)(uh1),
        ]
        if d == 2:
            out.append(nf.VorticityConvection2d(d, n, derivative_operator=dop, dealiasing_fraction=2 / 3)(uh1))
            out.append(
                nf.VorticityConvection2dKolmogorov(d, n, injection_mode=2, derivative_operator=dop, dealiasing_fraction=2 / 3)(uh1)
            )
        if d >= 2:
            out.append(nf.Leray(d, n, derivative_operator=dop)(uhd))
        if d == 3:
            out.append(nf.ProjectedConvection3d(d, n, derivative_operator=dop)(uhd))
            out.append(
                nf.ProjectedConvection3dKolmogorov(d, n, injection_mode=2, derivative_operator=dop, dealiasing_fraction=2 / 3)(uhd)
            )
        return out

    for d in (1, 2, 3):
        names = ["ConvectionNonlinearFun", "GeneralNonlinearFun", "GradientNormNonlinearFun", "PolynomialNonlinearFun", "ZeroNonlinearFun"]
        if d == 2:
            names += ["VorticityConvection2d", "VorticityConvection2dKolmogorov"]
        if d >= 2:
            names += ["Leray"]
        if d == 3:
            names += ["ProjectedConvection3d", "ProjectedConvection3dKolmogorov"]
        cat.add(
            Op(
                f"nonlin_fun[D={d}]",
                lambda pool, d=d: _nonlin(pool, d),
                tuple(f"exponax.nonlin_fun.{n_}" for n_ in names),
                f"nonlin{d}",
                cost=4,
            )
        )

    def _etdrk(pool):
        n = 16
        dop = ex.spectral.build_derivative_operator(1, _L, n)
        lin = 0.05 * dop**2 - 0.5 * dop
        nl = ex.nonlin_fun.ConvectionNonlinearFun(1, n, derivative_operator=dop)
        uh = ex.fft(_field(1, 1, n), num_spatial_dims=1)
        out = [ex.etdrk.roots_of_unity(8), ex.etdrk.ETDRK0(_DT, lin).step_fourier(uh)]
        for cls in (ex.etdrk.ETDRK1, ex.etdrk.ETDRK2, ex.etdrk.ETDRK3, ex.etdrk.ETDRK4):
            integ = cls(_DT, lin, nl)
            out.append(_array_leaves(integ))
            out.append(integ.step_fourier(uh))
        return out

    cat.add(
        Op(
            "etdrk",
            _etdrk,
            tuple(f"exponax.etdrk.{n_}" for n_ in ("ETDRK0", "ETDRK1", "ETDRK2", "ETDRK3", "ETDRK4", "roots_of_unity")),
            "etdrk",
            cost=3,
        )
    )

    def _generic_utils(pool):
        g = ex.stepper.generic
        coefs = (0.1, -0.4, 0.02, 0.003)
        nc = g.normalize_coefficients(coefs, domain_extent=_L, dt=_DT)
        dc = g.reduce_normalized_coefficients_to_difficulty(nc, num_spatial_dims=2, num_points=24)
        out = [
            nc,
            g.denormalize_coefficients(nc, domain_extent=_L, dt=_DT),
            dc,
            g.extract_normalized_coefficients_from_difficulty(dc, num_spatial_dims=2, num_points=24),
        ]
        for norm, denorm, red, ext in (
            (g.normalize_convection_scale, g.denormalize_convection_scale,
             g.reduce_normalized_convection_scale_to_difficulty, g.extract_normalized_convection_scale_from_difficulty),
            (g.normalize_gradient_norm_scale, g.denormalize_gradient_norm_scale,
             g.reduce_normalized_gradient_norm_scale_to_difficulty, g.extract_normalized_gradient_norm_scale_from_difficulty),
        ):  # fmt: skip
            a = norm(0.7, domain_extent=_L, dt=_DT)
            b = red(a, num_spatial_dims=2, num_points=24, maximum_absolute=1.5)
            out += [a, denorm(a, domain_extent=_L, dt=_DT), b,
                    ext(b, num_spatial_dims=2, num_points=24, maximum_absolute=1.5)]  # fmt: skip
        p = g.normalize_polynomial_scales((0.0, 1.0, -2.0), domain_extent=_L, dt=_DT)
        out += [p, g.denormalize_polynomial_scales(p, domain_extent=_L, dt=_DT)]
        return [float(x) if not isinstance(x, tuple) else tuple(float(y) for y in x) for x in out]

    gen_utils = [n_ for n_ in ex.stepper.generic.__all__ if n_[0].islower()]
    cat.add(
        Op(
            "generic-utils",
            _generic_utils,
            tuple(f"exponax.stepper.generic.{n_}" for n_ in gen_utils),
            "misc",
        )
    )

    # ---------------------------------------------------------------- fine-grained utility operations
    # One call per operation, with neighbours that differ in exactly one argument (band, power flag, target
    # resolution, domain extent, dealiasing fraction, forced mode, ...): what a memo keyed on too little, or
    # published in two steps, confuses. They share the group of their dimension so that they meet in the same runs.
    m = ex.metrics
    sp = ex.spectral
    nf = ex.nonlin_fun

    def add(key, fn, exports, group, cost=1):
        cat.add(Op(key, fn, tuple(exports), group, cost=cost))

    for d in (1, 2, 3):
        n = _N[d][0]
        ns = _N[d] if d < 3 else (6, 5)
        g = f"fine{d}"

        # metrics (C16)
        def ab(d=d, n=n):
            return _field(2, d, n), _field(2, d, n, 1)

        for name in ("MAE", "MSE", "RMSE", "nMAE", "nMSE", "nRMSE", "sMAE", "sMSE", "sRMSE", "correlation"):
            add(f"metric:{name}[D={d}]", lambda pool, name=name, ab=ab: getattr(m, name)(*ab()) if name == "correlation" else getattr(m, name)(*ab(), domain_extent=_L), [f"exponax.metrics.{name}"], g)
        for low, high in ((None, None), (1, 3), (1, 2), (2, 3), (0, 2)):
            for name in ("fourier_MSE", "fourier_nRMSE", "fourier_MAE", "H1_MSE", "H1_nRMSE"):
                add(
                    f"metric:{name}[D={d},band={low}-{high}]",
                    lambda pool, name=name, ab=ab, low=low, high=high: getattr(m, name)(*ab(), domain_extent=_L, low=low, high=high),
                    [f"exponax.metrics.{name}"],
                    g,
                )
        for order in (1.0, 2.0):
            add(f"metric:fourier_norm[D={d},deriv={order}]", lambda pool, ab=ab, order=order: m.fourier_norm(*ab(), mode="normalized", domain_extent=_L, derivative_order=order), ["exponax.metrics.fourier_norm"], g)
        add(f"metric:spatial_norm[D={d}]", lambda pool, ab=ab: m.spatial_norm(*ab(), mode="symmetric", domain_extent=_L, inner_exponent=1.0), ["exponax.metrics.spatial_norm"], g)
        add(f"metric:mean_metric[D={d}]", lambda pool, ab=ab: m.mean_metric(m.nRMSE, jnp.stack(ab()), jnp.stack(ab()[::-1])), ["exponax.metrics.mean_metric"], g)

        # radial spectrum (C17)
        for nn in ns:
            for power in (True, False):
                for binning in ("sum", "average"):
                    add(
                        f"spectrum[D={d},N={nn},power={power},{binning}]",
                        lambda pool, d=d, nn=nn, power=power, binning=binning: ex.get_spectrum(_field(2, d, nn), power=power, radial_binning=binning),
                        ["exponax.get_spectrum"],
                        g,
                    )

        # interpolation and resolution changes (C15)
        pairs = {1: ((16, 20), (16, 19), (15, 19), (16, 12), (15, 11), (16, 17), (15, 16)), 2: ((8, 12), (8, 11), (9, 13), (9, 6), (8, 9)), 3: ((6, 8), (6, 5), (5, 7))}[d]
        for n_old, n_new in pairs:
            for oddball in (True, False):
                add(
                    f"resample[D={d},{n_old}->{n_new},oddball_zero={oddball}]",
                    lambda pool, d=d, n_old=n_old, n_new=n_new, oddball=oddball: ex.map_between_resolutions(_field(2, d, n_old), n_new, oddball_zero=oddball),
                    ["exponax.map_between_resolutions"],
                    g,
                )
        for nn in ns:
            for L_ in (_L, 1.0):
                add(
                    f"interpolate[D={d},N={nn},L={L_}]",
                    lambda pool, d=d, nn=nn, L_=L_: jax.vmap(ex.FourierInterpolator(_field(2, d, nn), domain_extent=L_))(jnp.asarray([[0.3, 1.1, 2.2][:d], [2.9, 0.0, 0.7][:d]])),
                    ["exponax.FourierInterpolator"],
                    g,
                )

        # grids, wavenumbers, operators (C04, C05)
        for nn in ns:
            for L_ in (_L, 1.0, 2.0):
                add(f"grid[D={d},N={nn},L={L_}]", lambda pool, d=d, nn=nn, L_=L_: (ex.make_grid(d, L_, nn), ex.make_grid(d, L_, nn, full=True), ex.make_grid(d, L_, nn, zero_centered=True)), ["exponax.make_grid"], g)
                add(f"derivative-operator[D={d},N={nn},L={L_}]", lambda pool, d=d, nn=nn, L_=L_: (sp.build_derivative_operator(d, L_, nn), sp.build_scaled_wavenumbers(d, L_, nn)), ["exponax.spectral"], g)
                for order in (2, 4):
                    add(f"laplace-operator[D={d},N={nn},L={L_},order={order}]", lambda pool, d=d, nn=nn, L_=L_, order=order: sp.build_laplace_operator(sp.build_derivative_operator(d, L_, nn), order=order), ["exponax.spectral"], g)
                for order in (1, 2, 3):
                    add(f"derivative[D={d},N={nn},L={L_},order={order}]", lambda pool, d=d, nn=nn, L_=L_, order=order: ex.derivative(_field(2, d, nn), L_, order=order), ["exponax.derivative"], g)
                add(f"poisson[D={d},N={nn},L={L_}]", lambda pool, d=d, nn=nn, L_=L_: (ex.poisson.Poisson(d, L_, nn)(_field(1, d, nn)), ex.poisson.Poisson(d, L_, nn, order=4)(_field(1, d, nn))), ["exponax.poisson"], g)
            if d > 1:
                add(f"grid-xy[D={d},N={nn}]", lambda pool, d=d, nn=nn: (ex.make_grid(d, _L, nn, indexing="xy"), sp.build_wavenumbers(d, nn, indexing="xy")), ["exponax.make_grid", "exponax.spectral"], g)
            add(f"wavenumbers[D={d},N={nn}]", lambda pool, d=d, nn=nn: (sp.build_wavenumbers(d, nn), sp.wavenumber_shape(d, nn), sp.spatial_shape(d, nn)), ["exponax.spectral"], g)
            add(f"fft-pair[D={d},N={nn}]", lambda pool, d=d, nn=nn: (lambda u: (ex.fft(u, num_spatial_dims=d), ex.ifft(ex.fft(u, num_spatial_dims=d), num_spatial_dims=d, num_points=nn)))(_field(2, d, nn)), ["exponax.fft", "exponax.ifft"], g)
            for mode in ("norm_compensation", "reconstruction", "coef_extraction"):
                add(f"scaling-array[D={d},N={nn},{mode}]", lambda pool, d=d, nn=nn, mode=mode: sp.build_scaling_array(d, nn, mode=mode), ["exponax.spectral"], g)
            for cutoff in sorted({1, 2, nn // 3}):
                add(f"low-pass-mask[D={d},N={nn},cutoff={cutoff}]", lambda pool, d=d, nn=nn, cutoff=cutoff: (sp.low_pass_filter_mask(d, nn, cutoff=cutoff), sp.oddball_filter_mask(d, nn)), ["exponax.spectral"], g)
            add(f"fourier-coefficients[D={d},N={nn}]", lambda pool, d=d, nn=nn: sp.get_fourier_coefficients(_field(2, d, nn)), ["exponax.spectral"], g)
            if d > 1:
                add(f"make-incompressible[D={d},N={nn}]", lambda pool, d=d, nn=nn: sp.make_incompressible(_field(d, d, nn)), ["exponax.spectral"], g)

        # nonlinear functions, one class and one option set per operation (C03)
        for nn in ns:
            for frac in (2 / 3, 0.5):

                def dop(d=d, nn=nn):
                    return sp.build_derivative_operator(d, _L, nn)

                def uh(c, d=d, nn=nn):
                    return ex.fft(_field(c, d, nn), num_spatial_dims=d)

                tag = f"D={d},N={nn},frac={frac:.2f}"
                add(f"nonlin:Convection[{tag}]", lambda pool, d=d, nn=nn, frac=frac, dop=dop, uh=uh: nf.ConvectionNonlinearFun(d, nn, derivative_operator=dop(), dealiasing_fraction=frac)(uh(d)), ["exponax.nonlin_fun.ConvectionNonlinearFun"], g)
                add(f"nonlin:ConvectionConservative[{tag}]", lambda pool, d=d, nn=nn, frac=frac, dop=dop, uh=uh: nf.ConvectionNonlinearFun(d, nn, derivative_operator=dop(), dealiasing_fraction=frac, conservative=True, single_channel=True)(uh(1)), ["exponax.nonlin_fun.ConvectionNonlinearFun"], g)
                add(f"nonlin:GradientNorm[{tag}]", lambda pool, d=d, nn=nn, frac=frac, dop=dop, uh=uh: nf.GradientNormNonlinearFun(d, nn, derivative_operator=dop(), dealiasing_fraction=frac)(uh(1)), ["exponax.nonlin_fun.GradientNormNonlinearFun"], g)
                add(f"nonlin:Polynomial[{tag}]", lambda pool, d=d, nn=nn, frac=frac, uh=uh: nf.PolynomialNonlinearFun(d, nn, dealiasing_fraction=frac, coefficients=(0.0, 1.0, -1.0, 0.5))(uh(1)), ["exponax.nonlin_fun.PolynomialNonlinearFun"], g)
                add(f"nonlin:General[{tag}]", lambda pool, d=d, nn=nn, frac=frac, dop=dop, uh=uh: nf.GeneralNonlinearFun(d, nn, derivative_operator=dop(), dealiasing_fraction=frac, scale_list=(0.3, -1.0, 0.2))(uh(1)), ["exponax.nonlin_fun.GeneralNonlinearFun"], g)
                if d == 2:
                    add(f"nonlin:Vorticity[{tag}]", lambda pool, d=d, nn=nn, frac=frac, dop=dop, uh=uh: nf.VorticityConvection2d(d, nn, derivative_operator=dop(), dealiasing_fraction=frac)(uh(1)), ["exponax.nonlin_fun.VorticityConvection2d"], g)
                    for mode in (2, 3):
                        add(f"nonlin:VorticityKolmogorov[{tag},mode={mode}]", lambda pool, d=d, nn=nn, frac=frac, dop=dop, uh=uh, mode=mode: nf.VorticityConvection2dKolmogorov(d, nn, injection_mode=mode, derivative_operator=dop(), dealiasing_fraction=frac)(uh(1)), ["exponax.nonlin_fun.VorticityConvection2dKolmogorov"], g)
                if d == 3:
                    add(f"nonlin:Projected3d[{tag}]", lambda pool, d=d, nn=nn, frac=frac, dop=dop, uh=uh: nf.ProjectedConvection3d(d, nn, derivative_operator=dop(), dealiasing_fraction=frac)(uh(3)), ["exponax.nonlin_fun.ProjectedConvection3d"], g, cost=2)
                    for mode in (2, 1):
                        add(f"nonlin:Projected3dKolmogorov[{tag},mode={mode}]", lambda pool, d=d, nn=nn, frac=frac, dop=dop, uh=uh, mode=mode: nf.ProjectedConvection3dKolmogorov(d, nn, injection_mode=mode, derivative_operator=dop(), dealiasing_fraction=frac)(uh(3)), ["exponax.nonlin_fun.ProjectedConvection3dKolmogorov"], g, cost=2)
            if d >= 2:
                add(f"nonlin:Leray[D={d},N={nn}]", lambda pool, d=d, nn=nn: nf.Leray(d, nn, derivative_operator=sp.build_derivative_operator(d, _L, nn))(ex.fft(_field(d, d, nn), num_spatial_dims=d)), ["exponax.nonlin_fun.Leray"], g)

    # ETDRK integrators one order, one dt, one contour resolution per operation (C02)
    for order, cls_name in ((0, "ETDRK0"), (1, "ETDRK1"), (2, "ETDRK2"), (3, "ETDRK3"), (4, "ETDRK4")):
        for dt_ in (_DT, 0.1):
            for ncp in ((16,) if order == 0 else (16, 32)):

                def _one(pool, order=order, cls_name=cls_name, dt_=dt_, ncp=ncp):
                    nn = 16
                    dop = sp.build_derivative_operator(1, _L, nn)
                    lin = 0.05 * dop**2 - 0.5 * dop
                    nl = nf.ConvectionNonlinearFun(1, nn, derivative_operator=dop)
                    cls = getattr(ex.etdrk, cls_name)
                    integ = cls(dt_, lin) if order == 0 else cls(dt_, lin, nl, num_circle_points=ncp)
                    return _array_leaves(integ), integ.step_fourier(ex.fft(_field(1, 1, nn), num_spatial_dims=1))

                add(f"etdrk:{cls_name}[dt={dt_},M={ncp}]", _one, [f"exponax.etdrk.{cls_name}"], "etdrk", cost=2)
    for M in (8, 16, 32):
        add(f"etdrk:roots_of_unity[M={M}]", lambda pool, M=M: ex.etdrk.roots_of_unity(M), ["exponax.etdrk.roots_of_unity"], "etdrk")

    # forcing (C12): Kolmogorov steppers and the generic vorticity stepper with other forced modes / scales on the same grid
    for name, dd, variants in (
        ("stepper.KolmogorovFlowVorticity", 2, ({"injection_mode": 3}, {"injection_mode": 2, "injection_scale": 0.5}, {"injection_mode": 1})),
        ("stepper.generic.GeneralVorticityConvectionStepper", 2, ({"injection_mode": 3, "injection_scale": 0.5}, {"injection_mode": 2, "injection_scale": 1.0})),
        ("stepper.KolmogorovFlowVelocity", 3, ({"injection_mode": 1}, {"injection_mode": 2, "injection_scale": 0.5})),
    ):
        for kw_ in variants:
            for nn in _N[dd]:
                base = _cfg_key(name, dd, nn, {"injection_mode": 2} if "Kolmogorov" in name else {"injection_mode": 2, "injection_scale": 0.5})
                if base not in {o.group for o in cat.ops.values()}:
                    base = f"forcing{dd}"

                def mk(name=name, dd=dd, nn=nn, kw_=kw_):
                    return _resolve(name)(dd, _L, nn, _DT, **kw_)

                tk = _cfg_key(name, dd, nn, dict(kw_, twin="forcing"))
                add(f"construct:{tk}", lambda pool, mk=mk: _array_leaves(mk()), [f"exponax.{name}"], base, cost=2 if dd == 3 else 1)
                add(f"eager:{tk}", lambda pool, mk=mk, dd=dd, nn=nn: (lambda s_: s_(_field(s_.num_channels, dd, nn)))(mk()), [f"exponax.{name}"], base, cost=3 if dd == 3 else 2)
    for v in (0, 1, 2):

        def _forced(pool, v=v):
            s_ = ex.ForcedStepper(ex.stepper.Diffusion(1, _L, 16, _DT if v < 2 else 0.1))
            return s_(_field(1, 1, 16), _field(1, 1, 16, 3 + v))

        add(f"forced-step[variant={v}]", _forced, ["exponax.ForcedStepper"], "traj")

    # normalized / difficulty families with other coefficient sets on the same grid, conversion functions one by one (C13)
    gen = ex.stepper.generic
    for name, kw_ in (
        ("stepper.generic.NormalizedLinearStepper", {"normalized_linear_coefficients": (0.0, -0.25, 0.02)}),
        ("stepper.generic.NormalizedConvectionStepper", {"normalized_convection_scale": 0.05}),
        ("stepper.generic.NormalizedGradientNormStepper", {"normalized_gradient_norm_scale": 1e-5}),
        ("stepper.generic.NormalizedPolynomialStepper", {"normalized_polynomial_coefficients": (0.0, 0.0, -0.02)}),
        ("stepper.generic.NormalizedNonlinearStepper", {"normalized_nonlinear_coefficients": (0.0, -0.05, 0.0)}),
        ("stepper.generic.DifficultyLinearStepper", {"linear_difficulties": (0.0, -1.0)}),
        ("stepper.generic.DifficultyConvectionStepper", {"convection_difficulty": 2.5}),
        ("stepper.generic.DifficultyGradientNormStepper", {"gradient_norm_difficulty": 0.032}),
        ("stepper.generic.DifficultyPolynomialStepper", {"polynomial_difficulties": (0.0, 0.0, -0.02)}),
        ("stepper.generic.DifficultyNonlinearStepper", {"nonlinear_difficulties": (0.0, -2.4, 0.0)}),
        ("stepper.generic.DifficultyLinearStepperSimple", {"difficulty": -1.0}),
    ):
        for dd in (1, 2):
            nn = _N[dd][0]
            base = _cfg_key(name, dd, nn, {})

            def mk(name=name, dd=dd, nn=nn, kw_=kw_):
                return _resolve(name)(dd, nn, **kw_)

            tk = f"{name}[D={dd},N={nn},twin:coeff]"
            add(f"construct:{tk}", lambda pool, mk=mk: _array_leaves(mk()), [f"exponax.{name}"], base)
            add(f"eager:{tk}", lambda pool, mk=mk, dd=dd, nn=nn: (lambda s_: s_(_field(s_.num_channels, dd, nn)))(mk()), [f"exponax.{name}"], base, cost=2)
    for i, (L_, dt_, dd, nn) in enumerate(((_L, _DT, 2, 24), (1.0, 0.1, 1, 48), (2.0, 0.01, 3, 16))):

        def _conv(pool, L_=L_, dt_=dt_, dd=dd, nn=nn):
            coefs = (0.1, -0.4, 0.02, 0.003)
            nc = gen.normalize_coefficients(coefs, domain_extent=L_, dt=dt_)
            dc = gen.reduce_normalized_coefficients_to_difficulty(nc, num_spatial_dims=dd, num_points=nn)
            out = [nc, gen.denormalize_coefficients(nc, domain_extent=L_, dt=dt_), dc, gen.extract_normalized_coefficients_from_difficulty(dc, num_spatial_dims=dd, num_points=nn)]
            a = gen.normalize_convection_scale(0.7, domain_extent=L_, dt=dt_)
            b = gen.reduce_normalized_convection_scale_to_difficulty(a, num_spatial_dims=dd, num_points=nn, maximum_absolute=1.5)
            out += [a, gen.denormalize_convection_scale(a, domain_extent=L_, dt=dt_), b, gen.extract_normalized_convection_scale_from_difficulty(b, num_spatial_dims=dd, num_points=nn, maximum_absolute=1.5)]
            a = gen.normalize_gradient_norm_scale(0.7, domain_extent=L_, dt=dt_)
            b = gen.reduce_normalized_gradient_norm_scale_to_difficulty(a, num_spatial_dims=dd, num_points=nn, maximum_absolute=1.5)
            out += [a, gen.denormalize_gradient_norm_scale(a, domain_extent=L_, dt=dt_), b, gen.extract_normalized_gradient_norm_scale_from_difficulty(b, num_spatial_dims=dd, num_points=nn, maximum_absolute=1.5)]
            p_ = gen.normalize_polynomial_scales((0.0, 1.0, -2.0), domain_extent=L_, dt=dt_)
            out += [p_, gen.denormalize_polynomial_scales(p_, domain_extent=L_, dt=dt_)]
            return [float(x) if not isinstance(x, tuple) else tuple(float(y) for y in x) for x in out]

        add(f"conversions[variant={i}]", _conv, [f"exponax.stepper.generic.{n_}" for n_ in gen.__all__ if n_[0].islower()], "misc")

    # rejection of malformed states and unsupported configurations (C20): the *expected* outcome is an exception;
    # the operation is judged on "is it still rejected, with the same exception type, in every history"
    def _expect_raise(fn):
        def run(pool):
            fn()
            return "accepted"

        return run

    for name, dd in (
        ("stepper.Advection", 1), ("stepper.Diffusion", 2), ("stepper.Burgers", 1), ("stepper.Burgers", 2), ("stepper.KortewegDeVries", 1),
        ("stepper.KuramotoSivashinsky", 2), ("stepper.reaction.GrayScott", 1), ("stepper.NavierStokesVorticity", 2), ("stepper.Wave", 1),
        ("stepper.generic.GeneralNonlinearStepper", 1), ("stepper.generic.NormalizedConvectionStepper", 1),
    ):  # fmt: skip
        nn = _N[dd][0]
        normalized = "Normalized" in name or "Difficulty" in name
        base = _cfg_key(name, dd, nn, {})

        def mk(name=name, dd=dd, nn=nn, normalized=normalized):
            return _build_stepper(name, dd, nn, {}, normalized)

        add(f"reject:{name}[D={dd},N={nn},extra-channel]", _expect_raise(lambda mk=mk, dd=dd, nn=nn: (lambda s_: s_(_field(s_.num_channels + 1, dd, nn)))(mk())), [f"exponax.{name}"], base)
        add(f"reject:{name}[D={dd},N={nn},wrong-N]", _expect_raise(lambda mk=mk, dd=dd, nn=nn: (lambda s_: s_(_field(s_.num_channels, dd, nn + 1)))(mk())), [f"exponax.{name}"], base)
        add(f"reject:{name}[D={dd},N={nn},batch-axis]", _expect_raise(lambda mk=mk, dd=dd, nn=nn: (lambda s_: s_(_field(s_.num_channels, dd, nn)[None]))(mk())), [f"exponax.{name}"], base)
        add(
            f"reject:RepeatedStepper({name})[D={dd},N={nn},extra-channel]",
            _expect_raise(lambda mk=mk, dd=dd, nn=nn: (lambda s_: ex.RepeatedStepper(s_, 2)(_field(s_.num_channels + 1, dd, nn)))(mk())),
            ["exponax.RepeatedStepper"],
            base,
        )
    add("reject:NavierStokesVorticity[D=1]", _expect_raise(lambda: ex.stepper.NavierStokesVorticity(1, _L, 16, _DT)), ["exponax.stepper.NavierStokesVorticity"], "misc")
    add("reject:NavierStokesVelocity[D=2]", _expect_raise(lambda: ex.stepper.NavierStokesVelocity(2, _L, 8, _DT)), ["exponax.stepper.NavierStokesVelocity"], "misc")
    add("reject:GeneralNonlinearStepper[2 coefficients]", _expect_raise(lambda: gen.GeneralNonlinearStepper(1, _L, 16, _DT, nonlinear_coefficients=(0.0, -1.0))), ["exponax.stepper.generic.GeneralNonlinearStepper"], "misc")
    add("reject:laplace[odd order]", _expect_raise(lambda: sp.build_laplace_operator(sp.build_derivative_operator(1, _L, 16), order=3)), ["exponax.spectral"], "misc")
    add("reject:GaussianRandomField[std_one+max_one]", _expect_raise(lambda: ex.ic.GaussianRandomField(1, std_one=True, max_one=True)), ["exponax.ic.GaussianRandomField"], "ic1")
    add("reject:SineWaves1d[offset+std_one]", _expect_raise(lambda: ex.ic.SineWaves1d(_L, (1.0,), (1,), (0.0,), offset=0.5, std_one=True)), ["exponax.ic.SineWaves1d"], "ic1")
    add("reject:RandomSineWaves1d[D=2]", _expect_raise(lambda: ex.ic.RandomSineWaves1d(2)), ["exponax.ic.RandomSineWaves1d"], "ic1")
    add("reject:Poisson[wrong shape]", _expect_raise(lambda: ex.poisson.Poisson(1, _L, 16)(_field(1, 1, 15))), ["exponax.poisson"], "misc")
    add("reject:spatial_norm[normalized without ref]", _expect_raise(lambda: m.spatial_norm(_field(1, 1, 16), mode="normalized")), ["exponax.metrics.spatial_norm"], "misc")

    # ---------------------------------------------------------------- initial conditions
    ic = ex.ic

    def _ic_ops(d):
        n = _N[d][0]
        gens = {
            "DiffusedNoise/intensity=0.01": lambda: ic.DiffusedNoise(d, domain_extent=_L, intensity=0.01, max_one=True),
            "DiffusedNoise/extent=1": lambda: ic.DiffusedNoise(d, domain_extent=1.0, max_one=True),
            "GaussianRandomField/exponent=2": lambda: ic.GaussianRandomField(d, domain_extent=_L, powerlaw_exponent=2.0, std_one=True),
            "RandomTruncatedFourierSeries/cutoff=2": lambda: ic.RandomTruncatedFourierSeries(d, cutoff=2, offset_range=(0.5, 1.5)),
            "RandomDiscontinuities/n=2": lambda: ic.RandomDiscontinuities(d, domain_extent=_L, num_discontinuities=2, zero_mean=True),
            "RandomGaussianBlobs/extent=1": lambda: ic.RandomGaussianBlobs(d, domain_extent=1.0, num_blobs=2),
            "WhiteNoise/std=1": lambda: ic.WhiteNoise(d),
            "WhiteNoise": lambda: ic.WhiteNoise(d, std=0.7),
            "DiffusedNoise": lambda: ic.DiffusedNoise(d, domain_extent=_L, max_one=True),
            "GaussianRandomField": lambda: ic.GaussianRandomField(d, domain_extent=_L, std_one=True),
            "RandomTruncatedFourierSeries": lambda: ic.RandomTruncatedFourierSeries(d, cutoff=3, offset_range=(0.5, 1.5)),
            "RandomDiscontinuities": lambda: ic.RandomDiscontinuities(d, domain_extent=_L, zero_mean=True),
            "RandomGaussianBlobs": lambda: ic.RandomGaussianBlobs(d, domain_extent=_L, num_blobs=2),
            "ClampingICGenerator": lambda: ic.ClampingICGenerator(ic.RandomTruncatedFourierSeries(d, cutoff=3), limits=(-0.5, 2.0)),
            "ScaledICGenerator": lambda: ic.ScaledICGenerator(ic.GaussianRandomField(d, domain_extent=_L), 3.0),
            "RandomMultiChannelICGenerator": lambda: ic.RandomMultiChannelICGenerator(
                (ic.RandomTruncatedFourierSeries(d, cutoff=2), ic.WhiteNoise(d))
            ),
        }
        for gname, mkgen in gens.items():
            for seed, nn in ((0, n), (7, n), (0, _N[d][-1] if d < 3 else 5)):

                def _draw(pool, mkgen=mkgen, seed=seed, nn=nn):
                    import jax.random as jr

                    return mkgen()(nn, key=jr.PRNGKey(seed))

                cat.add(
                    Op(
                        f"ic:{gname}[D={d},N={nn},key={seed}]",
                        _draw,
                        (f"exponax.ic.{gname.split('/')[0]}",),
                        f"ic{d}",
                    )
                )

        def _ic_set(pool, n=n):
            import jax.random as jr

            return ex.build_ic_set(ic.RandomTruncatedFourierSeries(d, cutoff=2), num_points=n, num_samples=3, key=jr.PRNGKey(3))

        cat.add(Op(f"build_ic_set[D={d}]", _ic_set, ("exponax.build_ic_set", "exponax.ic.RandomTruncatedFourierSeries"), f"ic{d}"))

        def _ic_set2(pool, n=n):
            import jax.random as jr

            return ex.build_ic_set(ic.GaussianRandomField(d, domain_extent=_L), num_points=n, num_samples=2, key=jr.PRNGKey(4))

        cat.add(Op(f"build_ic_set/GRF[D={d}]", _ic_set2, ("exponax.build_ic_set", "exponax.ic.GaussianRandomField"), f"ic{d}"))

        def _function_form(pool, n=n):
            import jax.random as jr

            grid = ex.make_grid(d, _L, n)
            blobs = ic.GaussianBlobs(
                (
                    ic._gaussian_blob.GaussianBlob(jnp.full((d,), 1.0), 0.2 * jnp.eye(d)),
                    ic._gaussian_blob.GaussianBlob(jnp.full((d,), 2.0), 0.1 * jnp.eye(d), one_complement=True),
                )
            )
            disc = ic.Discontinuities(
                (
                    ic._discontinuities.Discontinuity((0.5,) * d, (1.5,) * d, 1.0),
                    ic._discontinuities.Discontinuity((1.0,) * d, (2.5,) * d, -0.5),
                ),
                max_one=True,
            )
            fun = ic.RandomGaussianBlobs(d, domain_extent=_L).gen_ic_fun(key=jr.PRNGKey(5))
            return (
                blobs(grid),
                disc(grid),
                ic.MultiChannelIC((blobs, disc))(grid),
                ic.ScaledIC(blobs, 2.5)(grid),
                fun(grid),
            )

        cat.add(
            Op(
                f"ic-function-form[D={d}]",
                _function_form,
                tuple(f"exponax.ic.{n_}" for n_ in ("GaussianBlobs", "Discontinuities", "MultiChannelIC", "ScaledIC", "RandomGaussianBlobs")),
                f"ic{d}",
                cost=2,
            )
        )

    for d in (1, 2, 3):
        _ic_ops(d)

    # function-form ICs and generator objects shared by all callers of a run: evaluated several times, on
    # different grids, from different threads -- an object that can only be used once, or that keeps
    # something from its previous evaluation, shows up as a difference from its first (isolated) use
    def _shared_ic(d):
        import jax.random as jr

        n = _N[d][0]
        n2 = _N[d][-1] if d < 3 else 5
        funs = {
            "RandomDiscontinuities": lambda: ic.RandomDiscontinuities(d, domain_extent=_L, zero_mean=True).gen_ic_fun(key=jr.PRNGKey(5)),
            "RandomGaussianBlobs": lambda: ic.RandomGaussianBlobs(d, domain_extent=_L, num_blobs=2).gen_ic_fun(key=jr.PRNGKey(5)),
            "ScaledICGenerator": lambda: ic.ScaledICGenerator(ic.RandomGaussianBlobs(d, domain_extent=_L), 2.0).gen_ic_fun(key=jr.PRNGKey(5)),
            "RandomMultiChannelICGenerator": lambda: ic.RandomMultiChannelICGenerator(
                (ic.RandomDiscontinuities(d, domain_extent=_L), ic.RandomGaussianBlobs(d, domain_extent=_L))
            ).gen_ic_fun(key=jr.PRNGKey(5)),
        }
        if d == 1:
            funs["RandomSineWaves1d"] = lambda: ic.RandomSineWaves1d(1, domain_extent=_L, cutoff=3).gen_ic_fun(key=jr.PRNGKey(5))
        for gname, mkfun in funs.items():
            pk = f"icfun:{gname}[D={d}]"
            cat.pool_builders[pk] = mkfun
            for nn in (n, n2):
                cat.add(
                    Op(
                        f"shared-icfun:{gname}[D={d},N={nn}]",
                        lambda pool, pk=pk, nn=nn: pool.get(pk)(ex.make_grid(d, _L, nn)),
                        (f"exponax.ic.{gname}",),
                        f"ic{d}",
                        uses_pool=True,
                    )
                )
        gens = {
            "GaussianRandomField": lambda: ic.GaussianRandomField(d, domain_extent=_L, std_one=True),
            "RandomTruncatedFourierSeries": lambda: ic.RandomTruncatedFourierSeries(d, cutoff=3, max_one=True),
            "DiffusedNoise": lambda: ic.DiffusedNoise(d, domain_extent=_L),
            "RandomDiscontinuities": lambda: ic.RandomDiscontinuities(d, domain_extent=_L, max_one=True),
            "ClampingICGenerator": lambda: ic.ClampingICGenerator(ic.GaussianRandomField(d, domain_extent=_L), limits=(-1.0, 1.0)),
        }
        for gname, mkgen in gens.items():
            pk = f"icgen:{gname}[D={d}]"
            cat.pool_builders[pk] = mkgen
            for seed, nn in ((1, n), (2, n), (1, n2)):
                cat.add(
                    Op(
                        f"shared-icgen:{gname}[D={d},N={nn},key={seed}]",
                        lambda pool, pk=pk, nn=nn, seed=seed: pool.get(pk)(nn, key=jr.PRNGKey(seed)),
                        (f"exponax.ic.{gname}",),
                        f"ic{d}",
                        uses_pool=True,
                    )
                )

    for d in (1, 2, 3):
        _shared_ic(d)

    def _sines(pool):
        import jax.random as jr

        grid = ex.make_grid(1, _L, 16)
        s = ic.SineWaves1d(_L, (1.0, 0.5), (1, 3), (0.0, 0.4), offset=0.25)
        return s(grid), ic.RandomSineWaves1d(1, domain_extent=_L, cutoff=3, std_one=True)(16, key=jr.PRNGKey(11))

    cat.add(Op("ic:SineWaves1d", _sines, ("exponax.ic.SineWaves1d", "exponax.ic.RandomSineWaves1d"), "ic1"))

    # ---------------------------------------------------------------- reference-model operations (models.py)
    import models

    models.add_model_ops(cat, Op)
    models.add_model_ops_2(cat, Op)
    models.add_model_ops_3(cat, Op)
    models.add_model_ops_4(cat, Op)

    return cat


# exports that are deliberately not exercised (abstract bases, submodule handles, plotting)
SKIPPED_EXPORTS = {
    "exponax.BaseStepper": "abstract base; exercised through every concrete stepper",
    "exponax.ic.BaseIC": "abstract base",
    "exponax.ic.BaseRandomICGenerator": "abstract base",
    "exponax.nonlin_fun.BaseNonlinearFun": "abstract base",
    "exponax.etdrk.BaseETDRK": "abstract base",
    "exponax.viz": "plotting; no property anchors it",
    "exponax.metrics": "submodule handle; members enumerated separately",
    "exponax.etdrk": "submodule handle",
    "exponax.ic": "submodule handle",
    "exponax.nonlin_fun": "submodule handle",
    "exponax.stepper": "submodule handle",
    "exponax.stepper.reaction": "submodule handle",
    "exponax.stepper.generic": "submodule handle",
}


def public_exports() -> set[str]:
    """Everything reachable through __all__ of the property-anchored subpackages."""
    import exponax as ex

    out = {f"exponax.{n}" for n in ex.__all__}
    for sub in ("stepper", "stepper.generic", "stepper.reaction", "ic", "nonlin_fun", "etdrk", "metrics"):
        mod = ex
        for part in sub.split("."):
            mod = getattr(mod, part)
        out.update(f"exponax.{sub}.{n}" for n in mod.__all__)
    return out


def coverage_gaps(cat: Catalogue) -> list[str]:
    covered = cat.covered_exports()
    return sorted(e for e in public_exports() if e not in covered and e not in SKIPPED_EXPORTS)
