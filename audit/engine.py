"""Exploration engine shared by the premise audit (all operations, bitwise oracle, PREMISE-* output)
and by the per-property checks (operations anchored in one property, rounding-tolerant oracle,
VIOLATION output + evidence file).

Pipeline
  1. catalogue      worker `list`: operations of the audited tree, grouped by configuration
  2. reference      every selected operation evaluated in fresh interpreters without simulator, seams or
                    faults, once per precision session (float32 / float64): digest + arrays
  3. simulate       seeds -> plans (swarm) -> simulated runs in worker processes that differ in hash
                    seed, XLA thread-pool setting, CPU affinity and initial precision session
  4. determinism    a sample of the seeds is executed again elsewhere; event-log digests must agree
  5. on mismatch    minimise (isolated per-operation references, fresh process per attempt, ddmin over the
                    operation lists, simpler fault/schedule settings first) and write a replay file
"""

from __future__ import annotations

import concurrent.futures as cf
import hashlib
import json
import os
import re
import shutil
import subprocess
import sys
import tempfile
import threading
import time

HERE = os.path.dirname(os.path.abspath(__file__))
sys.path.insert(0, HERE)

PY = "/venv/bin/python"
WORKER = os.path.join(HERE, "worker.py")

# --------------------------------------------------------------------------------------
# worker management


XLA_CACHE_DIR: str | None = None  # set per Explorer: XLA executables are shared between worker processes


def worker_env(repo: str, *, x64: bool, hashseed: str, single_thread: bool) -> dict:
    env = {k: v for k, v in os.environ.items() if k not in ("PYTHONHASHSEED", "XLA_FLAGS", "JAX_ENABLE_X64", "PYTHONPATH")}
    if XLA_CACHE_DIR:
        # JAX's persistent compilation cache: every process still traces (runs exponax's Python) itself, only
        # the XLA:CPU compilation of an identical HLO module is reused. Lives in the run's temp dir.
        env["JAX_COMPILATION_CACHE_DIR"] = XLA_CACHE_DIR
        env["JAX_PERSISTENT_CACHE_MIN_COMPILE_TIME_SECS"] = "0"
        env["JAX_PERSISTENT_CACHE_MIN_ENTRY_SIZE_BYTES"] = "-1"
    env["PYTHONPATH"] = repo  # the audited tree wins over any installed copy
    env["PREMISE_AUDIT_EXPECT_ROOT"] = os.path.join(repo, "exponax")
    env["JAX_ENABLE_X64"] = "1" if x64 else "0"
    env["JAX_PLATFORMS"] = "cpu"
    env["PYTHONDONTWRITEBYTECODE"] = "1"
    if hashseed != "random":
        env["PYTHONHASHSEED"] = hashseed
    if single_thread:
        env["XLA_FLAGS"] = "--xla_cpu_multi_thread_eigen=false intra_op_parallelism_threads=1"
    return env


_SLOT_LOCK = threading.Lock()
_FREE_SLOTS: list[int] = []


def run_worker(mode: str, spec: dict, env: dict, workdir: str, tag: str, timeout: float) -> dict:
    """Runs one worker process pinned to a free CPU slot (1 or 2 cores, alternating)."""
    with _SLOT_LOCK:
        slot = _FREE_SLOTS.pop() if _FREE_SLOTS else None
    try:
        if slot is not None:
            ncpu = os.cpu_count() or 1
            cpus = [slot % ncpu] if slot % 2 == 0 else [slot % ncpu, (slot + 1) % ncpu]
            env = dict(env, PREMISE_AUDIT_AFFINITY=",".join(map(str, cpus)))
        return _run_worker(mode, spec, env, workdir, tag, timeout)
    finally:
        if slot is not None:
            with _SLOT_LOCK:
                _FREE_SLOTS.append(slot)


def _run_worker(mode: str, spec: dict, env: dict, workdir: str, tag: str, timeout: float) -> dict:
    inp = os.path.join(workdir, f"{tag}.in.json")
    outp = os.path.join(workdir, f"{tag}.out.json")
    with open(inp, "w") as f:
        json.dump(spec, f)
    t0 = time.monotonic()
    try:
        p = subprocess.run([PY, WORKER, mode, inp, outp], env=env, stdout=subprocess.PIPE, stderr=subprocess.PIPE, timeout=timeout, cwd=workdir)
    except subprocess.TimeoutExpired as e:
        return {"worker_error": f"timeout after {timeout}s", "stderr": (e.stderr or b"")[-3000:].decode("utf8", "replace"), "tag": tag}
    if p.returncode != 0 or not os.path.exists(outp):
        return {"worker_error": f"exit {p.returncode}", "stderr": p.stderr[-3000:].decode("utf8", "replace"), "tag": tag}
    res = json.load(open(outp))
    res["wall"] = time.monotonic() - t0
    res["tag"] = tag
    return res


def changed_lines(repo: str, pad: int = 6) -> dict:
    """Source lines of the package touched by uncommitted changes of the audited tree (`git diff HEAD`), padded
    by a few lines: "file:line" as the simulator names them. Used only to *prioritise* crash points and
    pre-emption (change-aware testing); empty when the tree is clean or not a git checkout."""
    out: dict = {"files": [], "lines": []}
    try:
        p = subprocess.run(["git", "-C", repo, "diff", "-U0", "HEAD", "--", "exponax"], capture_output=True, text=True, timeout=60)
        if p.returncode != 0:
            return out
        cur = None
        lines: set = set()
        files: set = set()
        for ln in p.stdout.splitlines():
            if ln.startswith("+++ "):
                path = ln[4:].strip()
                cur = path[2:] if path.startswith("b/") else None
                if cur and cur.startswith("exponax/") and cur.endswith(".py"):
                    cur = cur[len("exponax/"):]
                    files.add(cur)
                else:
                    cur = None
            elif ln.startswith("@@") and cur:
                m = re.match(r"@@ -\d+(?:,\d+)? \+(\d+)(?:,(\d+))? @@", ln)
                if m:
                    start, cnt = int(m.group(1)), int(m.group(2) or 1)
                    for i in range(max(1, start - pad), start + max(cnt, 1) + pad):
                        lines.add(f"{cur}:{i}")
        out = {"files": sorted(files), "lines": sorted(lines)}
    except Exception:  # noqa: BLE001 - prioritisation only
        pass
    return out


def shape_family(key: str) -> str:
    """Operations with the same (D, N) share most XLA programs; keeping them in one process avoids recompiling."""
    m = re.search(r"D=(\d)(?:,N=(\d+))?", key)
    return f"D{m.group(1)}N{m.group(2) or ''}" if m else "misc"


def contiguous_chunks(items, costs, n):
    """Split `items` (already ordered) into <= n contiguous chunks of roughly equal cost."""
    total = sum(costs[k] for k in items) or 1
    chunks, cur, acc = [], [], 0.0
    for k in items:
        cur.append(k)
        acc += costs[k]
        if acc >= total / n and len(chunks) < n - 1:
            chunks.append(cur)
            cur, acc = [], 0.0
    if cur:
        chunks.append(cur)
    return chunks


# --------------------------------------------------------------------------------------


class Explorer:
    """One exploration of a set of operations. `select(key, meta) -> bool` picks the operations."""

    def __init__(
        self,
        *,
        repo: str,
        jobs: int,
        seeds: int,
        seed_base: int,
        select=None,
        isolate_reference: bool = False,
        replay_sample: int = 8,
        cover: bool = True,
        cold_start: bool = False,
        run_wall_cap: float = 900.0,
        worker_timeout: float = 3000.0,
        min_budget: int = 60,
        replay_dir: str | None = None,
        label: str = "explore",
        plans_per_worker: int | None = None,
        crash_points: int | None = 0,
        switch_points: int | None = 0,
        switch_cap: int | None = 400,
        focus_cap: int = 96,
    ):
        self.repo = os.path.abspath(repo)
        self.jobs = jobs
        self.n_seeds = seeds
        self.seed_base = seed_base
        self.select = select or (lambda k, m: True)
        self.isolate_reference = isolate_reference
        self.replay_sample = replay_sample
        self.cover = cover
        self.cold_start = cold_start
        self.run_wall_cap = run_wall_cap
        self.worker_timeout = worker_timeout
        self.min_budget = min_budget
        self.replay_dir = replay_dir or os.path.join(HERE, "replays")
        self.label = label
        self.plans_per_worker = plans_per_worker
        self.crash_points = crash_points
        self.switch_points = switch_points
        self.switch_cap = switch_cap
        self.focus_cap = focus_cap
        self.focus = changed_lines(self.repo)
        self.workdir = tempfile.mkdtemp(prefix="exponax-dst-")
        global XLA_CACHE_DIR
        XLA_CACHE_DIR = os.path.join(self.workdir, "xla-cache")
        os.makedirs(XLA_CACHE_DIR, exist_ok=True)
        _FREE_SLOTS[:] = list(range(self.jobs))
        self.errors: list[str] = []  # harness trouble (never a statement about the audited code)
        self.report: dict = {}
        self.seam_pkg_hits: dict = {}
        self.seam_totals: dict = {}
        self.runs: list[dict] = []
        self.mismatch_info: dict | None = None

    def cleanup(self):
        shutil.rmtree(self.workdir, ignore_errors=True)

    # ---------------------------------------------------------------- 1. catalogue
    def load_catalogue(self) -> bool:
        env = worker_env(self.repo, x64=False, hashseed="0", single_thread=False)
        res = run_worker("list", {}, env, self.workdir, "list", 600)
        if "worker_error" in res:
            self.errors.append(f"catalogue: {res['worker_error']}\n{res.get('stderr', '')}")
            return False
        self.all_ops = res["ops"]
        self.ops = {k: m for k, m in res["ops"].items() if self.select(k, m)}
        self.keys = list(self.ops)
        self.groups: dict = {}
        for k, o in self.ops.items():
            self.groups.setdefault(o["group"], []).append(k)
        self.report["catalogue"] = {
            "operations_in_catalogue": len(res["ops"]),
            "operations_selected": len(self.keys),
            "configurations_selected": len(self.groups),
            "public_exports": len(res["exports"]),
            "exports_skipped": res["skipped_exports"],
            "exports_uncovered": res["gaps"],
            "package_root": res["package_root"],
            "session": res["session"],
        }
        if not self.keys:
            self.errors.append("no operation selected")
            return False
        return True

    # ---------------------------------------------------------------- 2. reference
    def build_reference(self):
        costs = {k: o["cost"] for k, o in self.ops.items()}
        ordered = sorted(self.keys, key=lambda k: (shape_family(k), self.ops[k]["group"], k))
        if self.isolate_reference:
            # group-aligned chunks, many processes: little shared history inside one interpreter
            n_chunks = min(len(self.groups), self.jobs * 6)
        else:
            n_chunks = min(len(self.keys), self.jobs)
        chunks = contiguous_chunks(ordered, costs, max(1, n_chunks))
        self.ref_chunks = chunks
        self.reference = {False: {}, True: {}}
        self.reference_messages = {False: {}, True: {}}
        self.op_lines: dict = {}
        self.reference_arrays = {False: [], True: []}
        t0 = time.monotonic()
        jobs = []
        with cf.ThreadPoolExecutor(self.jobs) as ex:
            for x64 in (False, True):
                env = worker_env(self.repo, x64=x64, hashseed="0", single_thread=False)
                for i, ch in enumerate(chunks):
                    arr = os.path.join(self.workdir, f"ref-{int(x64)}-{i}.arrays.pkl")
                    self.reference_arrays[x64].append(arr)
                    jobs.append((x64, ex.submit(run_worker, "ref", {"ops": ch, "arrays_out": arr, "trace_lines": not x64}, env, self.workdir, f"ref-{int(x64)}-{i}", 1800)))
            for x64, fut in jobs:
                res = fut.result()
                if "worker_error" in res:
                    self.errors.append(f"reference worker {res['tag']}: {res['worker_error']}\n{res.get('stderr', '')[-800:]}")
                    continue
                want = "float64" if x64 else "float32"
                if res["session"]["default_float"] != want:
                    self.errors.append(f"reference session dtype {res['session']['default_float']} != {want}")
                self.reference[x64].update(res["table"])
                self.reference_messages[x64].update(res.get("messages", {}))
                for k, ls in res.get("lines", {}).items():
                    self.op_lines[k] = ls
        self.reference_arrays = {x: [p for p in ps if os.path.exists(p)] for x, ps in self.reference_arrays.items()}
        raised = {("float64" if x else "float32"): sorted(k for k, v in t.items() if v[0] != "ok") for x, t in self.reference.items()}
        self.report["reference"] = {
            "processes": len(jobs),
            "isolation": f"{len(chunks)} chunks per session" + (" (configuration-aligned)" if self.isolate_reference else ""),
            "ops_float32": len(self.reference[False]),
            "ops_float64": len(self.reference[True]),
            "ops_raising_in_reference": raised,
            "wall_s": round(time.monotonic() - t0, 1),
        }

    # ---------------------------------------------------------------- 3. simulate
    def make_plans(self):
        from sim import make_crash_probe_plan, make_plan, make_switch_probe_plan

        seeds = [self.seed_base + i for i in range(self.n_seeds)]
        plans = {False: [], True: []}
        for si, x64 in enumerate((False, True)):
            mine = seeds[si::2]
            if not mine:
                continue
            order = sorted(self.keys, key=lambda k: (shape_family(k), hashlib.sha256(f"{self.seed_base}-{x64}-{k}".encode()).hexdigest()))
            slices = contiguous_chunks(order, {k: 1 for k in order}, len(mine))
            slices += [[] for _ in range(len(mine) - len(slices))]
            for j, (s, mand) in enumerate(zip(mine, slices)):
                plans[x64].append(make_plan(s, self.keys, self.groups, mandatory=mand if self.cover else None))
        # crash-point enumeration: source lines of the package executed by the selected operations; each probe
        # abandons one operation at its first arrival at one line. `crash_points` probes per invocation, drawn
        # (by seed) without replacement from the distinct lines; all of them if crash_points is None.
        line_ops: dict = {}
        for k, ls in getattr(self, "op_lines", {}).items():
            for ln in ls:
                line_ops.setdefault(ln, []).append(k)
        lines = sorted(line_ops, key=lambda ln: hashlib.sha256(f"{self.seed_base}-{ln}".encode()).hexdigest())
        n_probe = len(lines) if self.crash_points is None else min(self.crash_points, len(lines))
        # change-aware prioritisation: executed lines inside uncommitted hunks of the audited tree come first
        focus = [ln for ln in lines if ln in set(self.focus["lines"])][: self.focus_cap]
        rest = [ln for ln in lines if ln not in set(focus)][:n_probe]
        self.crash_point_plan = {"distinct_source_lines_executed": len(lines), "lines_probed": len(focus) + len(rest), "of_which_in_uncommitted_hunks": len(focus)}
        for j, ln in enumerate(focus + rest):
            cands = sorted(line_ops[ln])
            tgt = cands[int(hashlib.sha256(f"{self.seed_base}-{ln}-op".encode()).hexdigest(), 16) % len(cands)]
            x64 = bool(j % 2)
            plans[x64].append(make_crash_probe_plan(1_000_000_000 + self.seed_base + j, self.keys, self.groups, self.ops, target=tgt, at_line=ln))
        # single-preemption enumeration: park one operation at its first arrival at a source line, let a neighbour
        # (twin / other program form / duplicate of the same configuration) run to completion, resume. Lines inside
        # uncommitted hunks are tried against *every* neighbour (capped), the seeded sample against one.
        import random as _random

        sw = 0
        n_switch = len(lines) if self.switch_points is None else min(self.switch_points, len(lines))
        rest_sw = sorted((ln for ln in lines if ln not in set(focus)), key=lambda ln: hashlib.sha256(f"{self.seed_base}-sw-{ln}".encode()).hexdigest())[:n_switch]
        for ln in focus + rest_sw:
            rng = _random.Random(f"switch-{self.seed_base}-{ln}")
            cands = sorted(line_ops[ln])
            tgt = rng.choice(cands)
            neigh = sorted(k for k in self.groups[self.ops[tgt]["group"]] if not self.ops[k]["atomic"])
            if not neigh:
                continue
            others = neigh if ln in set(focus) else [rng.choice(neigh)]
            if len(others) > 6:
                others = rng.sample(others, 6)
            # ... and callers from *other* configurations, which share only library-wide state with the parked one
            pool_all = [k for k in self.keys if not self.ops[k]["atomic"]]
            others = list(others) + [rng.choice(pool_all) for _ in range(3 if ln in set(focus) else 1)]
            for other in others:
                if sw >= (self.switch_cap or 10**9):
                    break
                extra = [rng.choice(neigh)] if rng.random() < 0.5 else []
                plans[bool(sw % 2)].append(make_switch_probe_plan(2_000_000_000 + self.seed_base + sw, tgt, other, ln, extra))
                sw += 1
        self.crash_point_plan["switch_probes"] = sw
        return plans

    @staticmethod
    def worker_variants(x64):
        return [dict(x64=x64, hashseed=hs, single_thread=st) for hs in ("0", "1", "4242", "random") for st in (False, True)]

    def _sim_spec(self, plans, record_trace, cold_start):
        needed = {k for p in plans for t in p.threads for k in t}
        return {
            "plans": [p.to_json() for p in plans],
            "reference": {str(int(x)): {k: self.reference[x][k] for k in needed if k in self.reference[x]} for x in (False, True)},
            "reference_arrays": {str(int(x)): self.reference_arrays[x] for x in (False, True)},
            "wall_cap": self.run_wall_cap,
            "record_trace": record_trace,
            "cold_start": cold_start,
            "focus_files": self.focus["files"],
        }

    def run_plans(self, plans_by_session, label, shift=0, record_trace=False):
        tasks = []
        for x64, plans in plans_by_session.items():
            if not plans:
                continue
            variants = self.worker_variants(x64)
            share = self.jobs // 2 if sum(1 for v in plans_by_session.values() if v) > 1 else self.jobs
            n_workers = max(1, min(len(plans), share))
            if self.plans_per_worker:
                n_workers = max(n_workers, -(-len(plans) // self.plans_per_worker))
            pcost = {id(p): sum(self.ops[k]["cost"] for t in p.threads for k in t) for p in plans}
            idx = {id(p): p for p in plans}
            buckets = [[idx[i] for i in ch] for ch in contiguous_chunks([id(p) for p in plans], pcost, n_workers)]
            for wi, b in enumerate(buckets):
                if b:
                    tasks.append((variants[(wi + shift) % len(variants)], self._sim_spec(b, record_trace, self.cold_start), f"{label}-{int(x64)}-{wi}"))
        runs = []
        with cf.ThreadPoolExecutor(self.jobs) as ex:
            futs = [(var, ex.submit(run_worker, "sim", spec, worker_env(self.repo, **var), self.workdir, tag, self.worker_timeout)) for var, spec, tag in tasks]
            for var, fut in futs:
                res = fut.result()
                if "worker_error" in res:
                    self.errors.append(f"simulation worker {res['tag']}: {res['worker_error']}\n{res.get('stderr', '')[-1500:]}")
                    continue
                for pos, r in enumerate(res["runs"]):
                    r["variant"] = var
                    r["position_in_worker"] = pos
                    runs.append(r)
                for k, v in res["seams"]["hits_total"].items():
                    self.seam_totals[k] = self.seam_totals.get(k, 0) + v
                for k, v in res["seams"]["hits_from_package"].items():
                    self.seam_pkg_hits[k] = self.seam_pkg_hits.get(k, 0) + v
        return runs

    def simulate(self):
        t0 = time.monotonic()
        plans = self.make_plans()
        runs = self.run_plans(plans, "sim")
        wall = time.monotonic() - t0
        by_seed = {r["seed"]: r for r in runs}
        expected = {p.seed for ps in plans.values() for p in ps}
        for s in sorted(expected - set(by_seed)):
            self.errors.append(f"simulated run {s} produced no record")
        for r in runs:
            if r.get("error"):
                self.errors.append(f"simulated run {r['seed']}: {r['error']}")
                self.failed_plans = getattr(self, "failed_plans", []) + [r]
        good = [r for r in runs if not r.get("error")]
        self.runs = good

        # 4. determinism: same plans, other processes / positions / hash seeds / thread-pool settings
        from sim import Plan

        sample = sorted(good, key=lambda r: hashlib.sha256(str(r["seed"]).encode()).hexdigest())[: self.replay_sample]
        again = {False: [], True: []}
        for r in sample:
            again[r["variant"]["x64"]].append(Plan.from_json(r["plan"]))
        again = {k: list(reversed(v)) for k, v in again.items()}
        reruns = self.run_plans(again, "det", shift=3) if sample else []
        diverged = []
        for rr in reruns:
            first = by_seed[rr["seed"]]
            if rr.get("error"):
                self.errors.append(f"determinism re-run {rr['seed']}: {rr['error']}")
            elif rr["event_digest"] != first["event_digest"]:
                diverged.append({"seed": rr["seed"], "first": first["variant"], "second": rr["variant"]})
        self.diverged = diverged

        agg = {"line_events": 0, "decisions": 0, "switches": 0, "line_switches": 0, "ops_completed": 0, "ops_crashed": 0, "ops_raised": 0, "retries": 0, "session_leaks": 0, "lock_waits": 0, "scripted_switches": 0}
        faults: dict = {}
        ops_seen = set()
        by_session = [0, 0]
        digests, nontrivial = set(), set()
        clock = 0.0
        for r in good:
            for k in agg:
                agg[k] += r["stats"].get(k, 0)
            for k, v in r["stats"]["faults"].items():
                faults[k] = faults.get(k, 0) + v
            ops_seen.update(r["ops"])
            by_session[0] += r["ops_by_session"][0]
            by_session[1] += r["ops_by_session"][1]
            digests.add(r["event_digest"])
            if r["stats"]["line_switches"] > 0 or sum(r["stats"]["faults"].values()) > 0:
                nontrivial.add(r["event_digest"])
            clock += abs(r.get("sim_clock", 1.9e9) - 1.9e9)
        self.report["simulation"] = {
            "runs": len(good),
            "seeds": [self.seed_base, self.seed_base + self.n_seeds - 1],
            "wall_s": round(wall, 1),
            "runs_per_hour": round(len(good) / wall * 3600) if wall > 0 else None,
            "distinct_event_logs": len(digests),
            "distinct_event_logs_with_preemption_or_fault": len(nontrivial),
            "reach": agg,
            "faults_injected": faults,
            "operations_compared_float32": by_session[0],
            "operations_compared_float64": by_session[1],
            "distinct_operations_exercised": len(ops_seen),
            "operations_selected": len(self.keys),
            "runs_with_any_bitwise_mismatch": sum(1 for r in good if r["mismatches"]),
            "runs_with_mismatch_beyond_rounding": sum(1 for r in good if any(m["severity"] == "beyond" for m in r["mismatches"])),
            "determinism_reruns": len(reruns),
            "determinism_divergences": diverged,
            "worker_variants": "initial session {float32,float64} x PYTHONHASHSEED {0,1,4242,random} x XLA {default, single-thread} x CPU affinity {1,2 cores}",
            "simulated_wall_clock_excursion_s": clock,
            "real_code": "exponax (whole package from the audited tree, unmodified), jax, equinox, XLA:CPU, real Python threads",
            "stubs": "time.* is served by the simulated clock; all other seams (os.urandom, random, numpy.random, open, os.environ, socket, subprocess, Thread.start, jax.config.update) pass through after being counted; who runs next is decided by the seeded scheduler only",
            "harness_errors": len(self.errors),
            "crash_point_enumeration": dict(
                getattr(self, "crash_point_plan", {}),
                scripted_crashes_fired=sum(1 for r in good if r["plan"].get("crash_at") and r["stats"]["faults"]["crash"] > 0),
                probe_runs=sum(1 for r in good if r["plan"].get("crash_at")),
                switch_probe_runs=sum(1 for r in good if r["plan"].get("switch_at")),
                scripted_switches_fired=sum(r["stats"].get("scripted_switches", 0) for r in good),
            ),
        }
        self.report["seams"] = {"hits_total": self.seam_totals, "hits_from_package": self.seam_pkg_hits}
        return good

    # ---------------------------------------------------------------- 5. minimisation / replay
    def isolated_reference(self, keys):
        """One fresh interpreter per operation and session: a reference no history can have polluted."""
        keys = sorted(set(keys))
        ref = {False: {}, True: {}}
        arrays = {False: [], True: []}
        self.isolated_messages = {False: {}, True: {}}
        with cf.ThreadPoolExecutor(self.jobs) as ex:
            futs = []
            for x64 in (False, True):
                env = worker_env(self.repo, x64=x64, hashseed="0", single_thread=False)
                for i, k in enumerate(keys):
                    arr = os.path.join(self.workdir, f"iso-{int(x64)}-{i}.arrays.pkl")
                    futs.append((x64, arr, ex.submit(run_worker, "ref", {"ops": [k], "arrays_out": arr}, env, self.workdir, f"iso-{int(x64)}-{i}", 900)))
            for x64, arr, fut in futs:
                res = fut.result()
                if "worker_error" in res:
                    self.errors.append(f"isolated reference {res['tag']}: {res['worker_error']}")
                    continue
                ref[x64].update(res["table"])
                self.isolated_messages[x64].update(res.get("messages", {}))
                arrays[x64].append(arr)
        return ref, arrays

    def try_plan(self, plan, variant, tag, reference=None, arrays=None):
        """One plan in a fresh process (cold caches); returns its run record or None on harness trouble."""
        ref = reference if reference is not None else self.reference
        arr = arrays if arrays is not None else self.reference_arrays
        needed = {k for t in plan.threads for k in t}
        spec = {
            "plans": [plan.to_json()],
            "reference": {str(int(x)): {k: ref[x][k] for k in needed if k in ref[x]} for x in (False, True)},
            "reference_arrays": {str(int(x)): arr[x] for x in (False, True)},
            "wall_cap": self.run_wall_cap,
            "record_trace": True,
            "cold_start": True,
            "focus_files": self.focus["files"],
        }
        res = run_worker("sim", spec, worker_env(self.repo, **variant), self.workdir, tag, self.worker_timeout)
        if "worker_error" in res or not res["runs"] or res["runs"][0].get("error"):
            return None
        return res["runs"][0]

    def minimise(self, run, severity):
        """Shrinks the failing run; `severity`: which mismatches count ('beyond' or 'any')."""
        from sim import Plan

        def relevant(ms):
            return [m for m in ms if severity == "any" or m["severity"] == "beyond"]

        variant = run["variant"]
        plan = Plan.from_json(run["plan"])
        attempts = [0]
        suspects = {m["op"] for m in relevant(run["mismatches"])}
        chunk_prefixes = []
        for ch in getattr(self, "ref_chunks", []):
            hit = [i for i, k in enumerate(ch) if k in suspects]
            if hit:
                chunk_prefixes.append(ch[: hit[0] + 1])
        iso_ref, iso_arr = self.isolated_reference([k for t in plan.threads for k in t] + [k for p in chunk_prefixes for k in p])
        tgt = [None]

        def fails(p, tag):
            attempts[0] += 1
            r = self.try_plan(p, variant, f"min-{run['seed']}-{tag}-{attempts[0]}", reference=iso_ref, arrays=iso_arr)
            if not r or not relevant(r["mismatches"]):
                return None
            if tgt[0] is None:
                tgt[0] = relevant(r["mismatches"])[0]["op"]
            return r if any(m["op"] == tgt[0] for m in relevant(r["mismatches"])) else None

        best = fails(plan, "orig")
        if best is None:
            # clean against isolated references: then the polluted history was the reference process itself
            for pre in sorted(chunk_prefixes, key=len):
                cand = Plan(plan.seed, [list(pre)], 0.0, 0.0, 0.0, [], 0, "reference-chunk order")
                best = fails(cand, "refchunk")
                if best:
                    plan = cand
                    run = dict(run, ops=list(pre))
                    break
        if best is None:
            return plan, run, attempts[0], False
        target = tgt[0]
        import dataclasses

        executed = best["ops"]
        no_crash = [f for f in plan.faults if f != "crash"]
        for name, cand in (
            ("single-thread-no-faults", Plan(plan.seed, [list(executed)], 0.0, 0.0, 0.0, [], 0, "serialised in executed order, no faults")),
            ("no-faults", Plan(plan.seed, plan.threads, plan.p_line, 0.0, 0.0, [], 0, "faults off")),
            ("no-line-preemption", Plan(plan.seed, plan.threads, 0.0, plan.p_fault, 0.0, no_crash, 0, "op-boundary scheduling only")),
            ("no-ambient-faults", dataclasses.replace(plan, p_fault=0.0, faults=["crash"] if "crash" in plan.faults else [], note="crashes only")),
        ):
            r = fails(cand, name)
            if r:
                plan, best = cand, r
                break
        # items keep their original position so that a scripted crash stays attached to its operation
        flat = [(ti, pos, k) for ti, t in enumerate(plan.threads) for pos, k in enumerate(t)]
        orig_ca = plan.crash_at

        def rebuild(items):
            th = [[] for _ in plan.threads]
            ca = None
            for ti, pos, k in items:
                if orig_ca and ti == orig_ca["thread"] and pos == orig_ca["index"]:
                    ca = dict(orig_ca, index=len(th[ti]))
                th[ti].append(k)
            return dataclasses.replace(plan, threads=th, crash_at=ca)

        n = 2
        while len(flat) >= 2 and attempts[0] < self.min_budget:
            size = max(1, len(flat) // n)
            subsets = [flat[i : i + size] for i in range(0, len(flat), size)]
            cands = [[x for j, s in enumerate(subsets) if j != i for x in s] for i in range(len(subsets))]
            cands = [c for c in cands if any(k == target for _, _, k in c)]
            found = None
            with cf.ThreadPoolExecutor(min(self.jobs, max(1, len(cands)))) as ex:
                futs = [(c, ex.submit(fails, rebuild(c), f"dd{n}")) for c in cands]
                for c, fut in futs:
                    r = fut.result()
                    if r and found is None:
                        found = (c, r)
            if found:
                flat, best = found
                plan = rebuild(flat)
                n = max(n - 1, 2)
            elif n >= len(flat):
                break
            else:
                n = min(len(flat), n * 2)
        return plan, best, attempts[0], True

    def write_replay(self, first, plan, best, attempts, reproduced, extra=None):
        os.makedirs(self.replay_dir, exist_ok=True)
        path = os.path.join(self.replay_dir, f"{self.label}-seed-{first['seed']}.json")
        with open(path, "w") as f:
            json.dump(
                {
                    "kind": "exponax-dst-replay",
                    "label": self.label,
                    "original_seed": first["seed"],
                    "variant": first["variant"],
                    "plan": plan.to_json(),
                    "original_plan_ops": sum(len(t) for t in first["plan"]["threads"]),
                    "expected": {"event_digest": best.get("event_digest"), "mismatches": best.get("mismatches", [])},
                    "trace": best.get("trace"),
                    "minimisation_attempts": attempts,
                    "reproduced_in_fresh_process": reproduced,
                    "focus_files": self.focus["files"],
                    **(extra or {}),
                },
                f,
                indent=1,
            )
        return path

    def replay(self, path, severity="any"):
        """Re-executes a replay file against isolated references. Returns (run record or None, expected)."""
        from sim import Plan

        rec = json.load(open(path))
        if not self.load_catalogue():
            return None, rec
        plan = Plan.from_json(rec["plan"])
        needed = sorted({k for t in plan.threads for k in t})
        missing = [k for k in needed if k not in self.all_ops]
        if missing:
            self.errors.append(f"replay refers to operations missing from this tree's catalogue: {missing[:3]}")
            return None, rec
        iso_ref, iso_arr = self.isolated_reference(needed)
        r = self.try_plan(plan, rec["variant"], "replay", reference=iso_ref, arrays=iso_arr)
        return r, rec
