"""Worker process of the premise audit. Invoked by premise_audit.py, never directly by a check.

    worker.py ref <in.json> <out.json>   evaluate operations in isolation, canonical order, real seams
    worker.py sim <in.json> <out.json>   execute simulated runs (plans) and compare with the reference

stdout of the audited package (KuramotoSivashinsky prints a hint) is discarded; results travel
through <out.json> only.
"""

from __future__ import annotations

import json
import os
import sys
import traceback
import warnings

HERE = os.path.dirname(os.path.abspath(__file__))
sys.path.insert(0, HERE)


def _package_root():
    import exponax

    return os.path.dirname(os.path.abspath(exponax.__file__))


def _session():
    import jax
    import jax.numpy as jnp

    return {
        "x64": bool(jax.config.jax_enable_x64),
        "default_float": str(jnp.zeros(()).dtype),
        "jax": jax.__version__,
        "python": sys.version.split()[0],
        "hashseed": os.environ.get("PYTHONHASHSEED", "random"),
        "xla_flags": os.environ.get("XLA_FLAGS", ""),
        "cpus": len(os.sched_getaffinity(0)),
    }


def run_ref(spec: dict) -> dict:
    import workload as W

    cat = W.build_catalogue()
    pool: dict = {}
    table = {}
    for key in spec["ops"]:
        op = cat.ops[key]
        if op.uses_pool and op.group not in pool:
            pool[op.group] = cat.pool_builders[op.group]()
        try:
            table[key] = ["ok", W.digest_tree(op.fn(pool))]
        except Exception as e:  # noqa: BLE001
            table[key] = ["raised", type(e).__name__]
    return {"session": _session(), "table": table, "gaps": W.coverage_gaps(cat), "n_catalogue": len(cat.ops)}


def run_list(spec: dict) -> dict:
    import workload as W

    cat = W.build_catalogue()
    return {
        "session": _session(),
        "package_root": _package_root(),
        "ops": {k: {"group": op.group, "cost": op.cost, "atomic": op.atomic, "uses_pool": op.uses_pool, "exports": list(op.exports)} for k, op in cat.ops.items()},
        "gaps": W.coverage_gaps(cat),
        "exports": sorted(W.public_exports()),
        "skipped_exports": W.SKIPPED_EXPORTS,
    }


def run_sim(spec: dict) -> dict:
    import workload as W
    from seams import REAL_MONOTONIC, Seams
    from sim import Plan, Simulator, clear_all_caches

    root = _package_root()
    exclude = (os.path.join(root, "viz") + "/",)
    cat = W.build_catalogue()
    reference = spec["reference"]  # key -> [status, digest]
    seams = Seams(root, exclude)
    seams.install(simulate_clock=True)
    out_runs = []
    try:
        for pj in spec["plans"]:
            plan = Plan.from_json(pj)
            if spec.get("cold_start", True):
                clear_all_caches()  # every run starts cold: replay in a fresh process sees the same cache state
            before_pkg = dict(seams.hits_pkg)
            sim = Simulator(plan, cat, seams, root, exclude, wall_cap=spec.get("wall_cap", 900.0))
            sim.record_trace = bool(spec.get("record_trace"))
            t0 = REAL_MONOTONIC()
            rec = {"seed": plan.seed, "plan": plan.to_json()}
            try:
                results, evd = sim.run()
            except TimeoutError as e:
                rec.update(error=f"hang: {e}")
                out_runs.append(rec)
                break  # threads are stuck; this process cannot be reused
            except Exception as e:  # noqa: BLE001
                rec.update(error=f"harness: {type(e).__name__}: {e}", tb=traceback.format_exc()[-2000:])
                out_runs.append(rec)
                continue
            mism = []
            for tid, idx, key, status, dig in results:
                if status == "crashed":
                    continue  # abandoned by an injected crash: nothing to compare
                want = reference.get(key)
                if want is None:
                    mism.append({"op": key, "thread": tid, "index": idx, "why": "no reference"})
                elif [status, dig] != want:
                    mism.append({"op": key, "thread": tid, "index": idx, "got": [status, dig[:16]], "want": [want[0], want[1][:16]]})
            new_hits = {f"{k[0]} @ {k[1]}": v - before_pkg.get(k, 0) for k, v in seams.hits_pkg.items() if v - before_pkg.get(k, 0)}
            rec.update(
                event_digest=evd,
                n_events=sim.n_events,
                mismatches=mism,
                seam_hits_from_package=new_hits,
                stats=sim.stats,
                ops=[r[2] for r in results],
                wall=REAL_MONOTONIC() - t0,
                sim_clock=seams.sim_clock,
            )
            if sim.record_trace:
                rec["trace"] = [list(map(str, ev)) for ev in sim.trace]
            out_runs.append(rec)
    finally:
        seams.remove()
    return {"session": _session(), "runs": out_runs, "seams": seams.report()}


def main():
    mode, inp, outp = sys.argv[1:4]
    aff = os.environ.get("PREMISE_AUDIT_AFFINITY")
    if aff:  # bound this worker's CPU set (XLA sizes its thread pool from it); avoids 16x16 oversubscription
        try:
            os.sched_setaffinity(0, {int(c) for c in aff.split(",")})
        except (OSError, ValueError):
            pass
    warnings.simplefilter("ignore")
    spec = json.load(open(inp))
    real_stdout = sys.stdout
    sys.stdout = open(os.devnull, "w")
    try:
        expect_root = os.environ.get("PREMISE_AUDIT_EXPECT_ROOT")
        if expect_root and os.path.realpath(_package_root()) != os.path.realpath(expect_root):
            raise SystemExit(f"audited package resolved to {_package_root()}, expected {expect_root}")
        res = {"list": run_list, "ref": run_ref, "sim": run_sim}[mode](spec)
    finally:
        sys.stdout = real_stdout
    tmp = outp + ".tmp"
    with open(tmp, "w") as f:
        json.dump(res, f)
    os.replace(tmp, outp)


if __name__ == "__main__":
    main()
