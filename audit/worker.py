"""Worker process of the premise audit. Invoked by premise_audit.py, never directly by a check.

    worker.py ref <in.json> <out.json>   evaluate operations in isolation, canonical order, real seams
    worker.py sim <in.json> <out.json>   execute simulated runs (plans) and compare with the reference

stdout of the audited package (KuramotoSivashinsky prints a hint) is discarded; results travel
through <out.json> only.
"""

from __future__ import annotations

import json
import os
import pickle
import sys
import traceback
import warnings

HERE = os.path.dirname(os.path.abspath(__file__))
sys.path.insert(0, HERE)


def _package_root():
    import exponax

    return os.path.dirname(os.path.abspath(exponax.__file__))


def _session():
    import jax
    import jax.numpy as jnp

    return {
        "x64": bool(jax.config.jax_enable_x64),
        "default_float": str(jnp.zeros(()).dtype),
        "jax": jax.__version__,
        "python": sys.version.split()[0],
        "hashseed": os.environ.get("PYTHONHASHSEED", "random"),
        "xla_flags": os.environ.get("XLA_FLAGS", ""),
        "cpus": len(os.sched_getaffinity(0)),
    }


def run_ref(spec: dict) -> dict:
    import workload as W

    cat = W.build_catalogue()
    pool = W.Pool(cat.pool_builders)
    table = {}
    arrays = {}
    lines: dict = {}
    messages: dict = {}  # key -> {"type", "message", "raised_in_harness_code"} for operations that raised
    tracer = _LineTracer() if spec.get("trace_lines") else None
    for key in spec["ops"]:
        op = cat.ops[key]
        try:
            if tracer and not op.atomic:
                tracer.start()
            try:
                out = op.fn(pool)
            finally:
                if tracer and not op.atomic:
                    lines[key] = tracer.stop()
            table[key] = ["ok", W.digest_tree(out)]
            arrays[key] = W.flatten_tree(out)
        except Exception as e:  # noqa: BLE001
            table[key] = ["raised", type(e).__name__]
            tb = e.__traceback__
            while tb is not None and tb.tb_next is not None:
                tb = tb.tb_next
            innermost = tb.tb_frame.f_code.co_filename if tb is not None else ""
            messages[key] = {
                "type": type(e).__name__,
                "message": str(e)[:400],
                # an exception raised *by a statement of the harness itself* (a call whose signature no longer fits,
                # a missing attribute) is API drift or a harness defect, not an observation about the library
                "raised_in_harness_code": os.path.dirname(os.path.abspath(innermost)) == os.path.dirname(os.path.abspath(__file__)) and type(e).__name__ != "ModelMismatch",
            }
    if spec.get("arrays_out"):
        with open(spec["arrays_out"], "wb") as f:
            pickle.dump(arrays, f)
    if tracer:
        tracer.close()
    return {"session": _session(), "table": table, "lines": lines, "messages": messages, "gaps": W.coverage_gaps(cat), "n_catalogue": len(cat.ops)}


class _LineTracer:
    """Which source lines of the package an operation executes (each reported once per operation): the
    crash points the engine then enumerates. Observation only -- results are unaffected."""

    def __init__(self):
        from sim import TOOL_ID, package_functions

        self.mon = sys.monitoring
        self.tool = TOOL_ID
        self.root = _package_root().rstrip("/") + "/"
        self.mon.use_tool_id(self.tool, "premise-audit-ref")
        self.mon.register_callback(self.tool, self.mon.events.LINE, self._cb)
        self.codes = package_functions(self.root, (os.path.join(self.root, "viz") + "/",))
        self.seen: list = []
        self.on = False

    def _cb(self, code, line):
        if self.on:
            self.seen.append(f"{code.co_filename[len(self.root):]}:{line}")
        return self.mon.DISABLE  # once per location until restart_events()

    def start(self):
        self.seen = []
        self.on = True
        for code in self.codes:
            self.mon.set_local_events(self.tool, code, self.mon.events.LINE)
        self.mon.restart_events()

    def stop(self):
        self.on = False
        for code in self.codes:
            self.mon.set_local_events(self.tool, code, 0)
        return self.seen

    def close(self):
        self.mon.register_callback(self.tool, self.mon.events.LINE, None)
        self.mon.free_tool_id(self.tool)


TOL = {"float32": 1e-4, "complex64": 1e-4, "float64": 1e-9, "complex128": 1e-9, "float16": 1e-2, "bfloat16": 1e-2}


def compare_leaves(got, want):
    """None if equal within rounding tolerance, else a short description. Structure/dtype/shape must match exactly."""
    import numpy as np

    if len(got) != len(want):
        return f"structure: {len(got)} leaves vs {len(want)}"
    worst = 0.0
    for i, (a, b) in enumerate(zip(got, want)):
        a_arr, b_arr = hasattr(a, "dtype"), hasattr(b, "dtype")
        if a_arr != b_arr:
            return f"leaf {i}: array vs scalar"
        if not a_arr:
            if isinstance(b, float) and isinstance(a, float):
                if abs(a - b) > 1e-12 * max(1.0, abs(b)):
                    return f"leaf {i}: scalar {a!r} vs {b!r}"
            elif a != b:
                return f"leaf {i}: scalar {a!r} vs {b!r}"
            continue
        if a.dtype != b.dtype:
            return f"leaf {i}: dtype {a.dtype} vs {b.dtype}"
        if a.shape != b.shape:
            return f"leaf {i}: shape {a.shape} vs {b.shape}"
        tol = TOL.get(str(a.dtype))
        if tol is None:
            if not np.array_equal(a, b):
                return f"leaf {i}: {a.dtype} values differ"
            continue
        if not np.array_equal(np.isnan(a), np.isnan(b)) or not np.array_equal(np.isinf(a), np.isinf(b)):
            return f"leaf {i}: non-finite pattern differs"
        fin = np.isfinite(b)
        if fin.any():
            scale = float(np.max(np.abs(b[fin]))) or 1.0
            err = float(np.max(np.abs(np.where(fin, a, 0) - np.where(fin, b, 0)))) / scale
            worst = max(worst, err)
            if err > tol:
                return f"leaf {i}: relative difference {err:.3e} > {tol:g} ({a.dtype})"
    return None


def run_list(spec: dict) -> dict:
    import workload as W

    cat = W.build_catalogue()
    return {
        "session": _session(),
        "package_root": _package_root(),
        "ops": {k: {"group": op.group, "cost": op.cost, "atomic": op.atomic, "uses_pool": op.uses_pool, "exports": list(op.exports)} for k, op in cat.ops.items()},
        "gaps": W.coverage_gaps(cat),
        "exports": sorted(W.public_exports()),
        "skipped_exports": W.SKIPPED_EXPORTS,
    }


def _run_one_plan(pj, spec, cat, seams, root, exclude, reference, load_arrays):
    """Executes one plan in the *current* process and returns its run record."""
    from seams import REAL_MONOTONIC
    from sim import Plan, Simulator, clear_all_caches

    plan = Plan.from_json(pj)
    if spec.get("cold_start"):
        clear_all_caches()
    before_pkg = dict(seams.hits_pkg)
    sim = Simulator(plan, cat, seams, root, exclude, wall_cap=spec.get("wall_cap", 900.0))
    sim.record_trace = bool(spec.get("record_trace"))
    sim.keep_outputs = bool(spec.get("reference_arrays"))
    sim.focus_files = set(spec.get("focus_files") or [])
    t0 = REAL_MONOTONIC()
    rec = {"seed": plan.seed, "plan": plan.to_json()}
    try:
        results, evd = sim.run()
    except TimeoutError as e:
        rec.update(error=f"hang: {e}", fatal=True)
        return rec
    except Exception as e:  # noqa: BLE001
        rec.update(error=f"harness: {type(e).__name__}: {e}", tb=traceback.format_exc()[-2000:])
        return rec
    mism = []
    for tid, idx, key, status, dig, x64, leaves in results:
        if status == "crashed":
            continue  # abandoned by an injected crash: nothing to compare
        want = reference[str(int(x64))].get(key)
        if want is None:
            continue  # no reference for this operation in this session: not judged
        if [status, dig] == want and status != "session-leak":
            continue
        m = {"op": key, "thread": tid, "index": idx, "x64": x64, "got": [status, dig[:16]], "want": [want[0], want[1][:16]]}
        if status == "session-leak":
            m["severity"], m["why"] = "beyond", f"library code left the process-wide precision session changed ({dig}) after this operation; the simulator had set x64={x64}"
        elif status != want[0] or status == "raised":
            m["severity"], m["why"] = "beyond", f"status {status}:{dig[:40]} vs {want[0]}:{want[1][:40]}" + (f" -- {leaves}" if isinstance(leaves, str) else "")
        else:
            ref_leaves = load_arrays(x64).get(key)
            why = compare_leaves(leaves, ref_leaves) if (leaves is not None and ref_leaves is not None) else "bitwise digest differs (no arrays kept for tolerance comparison)"
            m["severity"], m["why"] = ("rounding", "bitwise different but within rounding tolerance") if why is None else ("beyond", why)
        mism.append(m)
    new_hits = {f"{k[0]} @ {k[1]}": v - before_pkg.get(k, 0) for k, v in seams.hits_pkg.items() if v - before_pkg.get(k, 0)}
    rec.update(
        event_digest=evd,
        n_events=sim.n_events,
        mismatches=mism,
        seam_hits_from_package=new_hits,
        seam_hits_total=dict(seams.hits_total),
        stats=sim.stats,
        ops=[r[2] for r in results],
        ops_by_session=[sum(1 for r in results if not r[5] and r[3] != "crashed"), sum(1 for r in results if r[5] and r[3] != "crashed")],
        wall=REAL_MONOTONIC() - t0,
        sim_clock=seams.sim_clock,
    )
    if sim.record_trace:
        rec["trace"] = [list(map(str, ev)) for ev in sim.trace]
    return rec


def run_sim(spec: dict) -> dict:
    """Every plan runs in a forked child of this (never-initialised) interpreter: a pristine process whose
    whole lifetime is the simulated history, at the price of one fork instead of one interpreter start.
    A replay in a fresh process therefore sees exactly the state the original run saw."""
    import signal

    import workload as W
    from seams import REAL_MONOTONIC, REAL_SLEEP, Seams

    root = _package_root()
    exclude = (os.path.join(root, "viz") + "/",)
    cat = W.build_catalogue()
    reference = spec["reference"]  # {"0": {key: [status, digest]}, "1": {...}} per session precision
    _arrays: dict = {}

    def load_arrays(x64):
        k = str(int(x64))
        if k not in _arrays:
            merged = {}
            for p in spec.get("reference_arrays", {}).get(k, []):
                with open(p, "rb") as f:
                    merged.update(pickle.load(f))
            _arrays[k] = merged
        return _arrays[k]

    seams = Seams(root, exclude)
    seams.install(simulate_clock=True)
    out_runs = []
    hits_total: dict = {}
    hits_pkg: dict = {}
    scratch = sys.argv[3] + ".child"
    try:
        for i, pj in enumerate(spec["plans"]):
            if os.path.exists(scratch):
                os.remove(scratch)
            pid = os.fork()
            if pid == 0:  # child: pristine copy of the parent, which has never run a JAX computation
                code = 0
                try:
                    rec = _run_one_plan(pj, spec, cat, seams, root, exclude, reference, load_arrays)
                    with open(scratch + ".tmp", "w") as f:
                        json.dump(rec, f)
                    os.replace(scratch + ".tmp", scratch)
                except BaseException:  # noqa: BLE001
                    traceback.print_exc()
                    code = 3
                finally:
                    os._exit(code)
            deadline = REAL_MONOTONIC() + spec.get("wall_cap", 900.0) + 60.0
            status = None
            while REAL_MONOTONIC() < deadline:
                done, status = os.waitpid(pid, os.WNOHANG)
                if done:
                    break
                REAL_SLEEP(0.05)
            else:
                os.kill(pid, signal.SIGKILL)
                os.waitpid(pid, 0)
                out_runs.append({"seed": pj["seed"], "plan": pj, "error": "hang: child killed after wall cap"})
                continue
            if not os.path.exists(scratch):
                out_runs.append({"seed": pj["seed"], "plan": pj, "error": f"harness: child exited with status {status} and no result"})
                continue
            rec = json.load(open(scratch))
            for k, v in rec.pop("seam_hits_total", {}).items():
                hits_total[k] = hits_total.get(k, 0) + v
            for k, v in rec.get("seam_hits_from_package", {}).items():
                hits_pkg[k] = hits_pkg.get(k, 0) + v
            out_runs.append(rec)
    finally:
        seams.remove()
    return {"session": _session_static(), "runs": out_runs, "seams": {"hits_total": hits_total, "hits_from_package": hits_pkg}}


def _session_static():
    """Session description without touching the JAX backend (the sim parent must stay un-initialised)."""
    return {
        "x64": os.environ.get("JAX_ENABLE_X64") == "1",
        "python": sys.version.split()[0],
        "hashseed": os.environ.get("PYTHONHASHSEED", "random"),
        "xla_flags": os.environ.get("XLA_FLAGS", ""),
        "cpus": len(os.sched_getaffinity(0)),
    }


def main():
    mode, inp, outp = sys.argv[1:4]
    aff = os.environ.get("PREMISE_AUDIT_AFFINITY")
    if aff:  # bound this worker's CPU set (XLA sizes its thread pool from it); avoids 16x16 oversubscription
        try:
            os.sched_setaffinity(0, {int(c) for c in aff.split(",")})
        except (OSError, ValueError):
            pass
    warnings.simplefilter("ignore")
    # locks created by package code become cooperative (see colock.py); must happen before the package is imported
    import importlib.util

    import colock

    spec_ = importlib.util.find_spec("exponax")
    if spec_ is not None and spec_.submodule_search_locations:
        colock.install(list(spec_.submodule_search_locations)[0])
    spec = json.load(open(inp))
    real_stdout = sys.stdout
    sys.stdout = open(os.devnull, "w")
    try:
        expect_root = os.environ.get("PREMISE_AUDIT_EXPECT_ROOT")
        if expect_root and os.path.realpath(_package_root()) != os.path.realpath(expect_root):
            raise SystemExit(f"audited package resolved to {_package_root()}, expected {expect_root}")
        res = {"list": run_list, "ref": run_ref, "sim": run_sim}[mode](spec)
    finally:
        sys.stdout = real_stdout
    tmp = outp + ".tmp"
    with open(tmp, "w") as f:
        json.dump(res, f)
    os.replace(tmp, outp)


if __name__ == "__main__":
    main()
