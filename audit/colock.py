"""Cooperative locks for code of the audited package.

The simulator parks caller threads at source lines of the package. If the package protects shared
state with `threading.Lock()` / `RLock()`, a thread may be parked *while holding* such a lock, and the
baton holder that then tries to take it would block for ever (a harness deadlock, not a finding). So
locks *created by package code* are replaced by wrappers whose blocking `acquire` turns into a
scheduling decision: "I cannot proceed, run somebody else" -- which is also exactly how a simulator
explores lock-protected critical sections. Locks created by anybody else (JAX, the standard library,
the harness) stay real.

`install(package_root)` must run before the package is imported. `set_waiter(fn)` is called by the
simulator: fn(site) yields the baton to another runnable caller and returns True, or returns False
when the calling thread is not a simulated caller (then the wrapper blocks for real).
"""

from __future__ import annotations

import sys
import threading

_REAL_LOCK = threading.Lock
_REAL_RLOCK = threading.RLock
_root: str | None = None
_waiter = None
stats = {"locks_wrapped": 0, "contended_acquires": 0}


def set_waiter(fn):
    global _waiter
    _waiter = fn


class _CoLockBase:
    def __init__(self, real):
        self._real = real

    def acquire(self, blocking=True, timeout=-1):
        if self._real.acquire(False):
            return True
        if not blocking:
            return False
        spins = 0
        while True:
            w = _waiter
            if w is None or not w("lock-wait"):
                # not inside a simulated run: behave like the real thing
                return self._real.acquire(True, timeout)
            stats["contended_acquires"] += 1
            if self._real.acquire(False):
                return True
            spins += 1
            if spins > 100000:
                raise RuntimeError("cooperative lock: no progress after 100000 scheduling rounds (deadlock in the audited code?)")

    def release(self):
        self._real.release()

    def locked(self):
        return self._real.locked()

    def __enter__(self):
        self.acquire()
        return self

    def __exit__(self, *exc):
        self.release()

    def _at_fork_reinit(self):
        self._real._at_fork_reinit()

    def __repr__(self):
        return f"<cooperative {self._real!r}>"


class CoLock(_CoLockBase):
    pass


class CoRLock(_CoLockBase):
    def locked(self):  # RLock has no locked() before 3.14; keep the attribute harmless
        got = self._real.acquire(False)
        if got:
            self._real.release()
        return not got

    def _is_owned(self):
        return self._real._is_owned()


def _created_by_package() -> bool:
    if _root is None:
        return False
    f = sys._getframe(2)
    return f is not None and f.f_code.co_filename.startswith(_root)


def _lock_factory(*a, **k):
    real = _REAL_LOCK(*a, **k)
    if _created_by_package():
        stats["locks_wrapped"] += 1
        return CoLock(real)
    return real


def _rlock_factory(*a, **k):
    real = _REAL_RLOCK(*a, **k)
    if _created_by_package():
        stats["locks_wrapped"] += 1
        return CoRLock(real)
    return real


def install(package_root: str):
    global _root
    _root = package_root.rstrip("/") + "/"
    threading.Lock = _lock_factory
    threading.RLock = _rlock_factory


def uninstall():
    threading.Lock = _REAL_LOCK
    threading.RLock = _REAL_RLOCK
