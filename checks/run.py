#!/venv/bin/python
"""Per-property deterministic-simulation checks (DESIGN.md §6).

    checks/run.py --property C18 [--tier quick|thorough]      (VERIF_SEED / VERIF_TIER honoured)
    checks/run.py --property C18 --replay replays/C18-seed-7.json

What a check decides: for the public operations the property is anchored in, the result of every
call is the same -- up to rounding -- whatever the history of earlier API use in the process,
whatever concurrent callers interleave with it at source-line granularity, whatever calls were
abandoned half-way (and retried), whatever the clocks, global RNGs, garbage collector, caches and
precision-session switches did in between. Each listed property *implies* this (a call that returns
"the exact X to rounding" cannot return two different things for the same arguments), so a
difference beyond rounding is a violation of the property for that input; the converse is not
claimed: the input-quantified content of the property is outside this technique family.

exit 0  property held on everything explored        (KNOWN-FINDING lines for listed findings)
exit 1  VIOLATION property=<id> replay=<path>       (unlisted violation)
exit 2  the harness could not explore (no evidence either way)
"""

from __future__ import annotations

import argparse
import hashlib
import json
import os
import re
import sys
import time

VERIF = os.path.dirname(os.path.dirname(os.path.abspath(__file__)))
sys.path.insert(0, os.path.join(VERIF, "audit"))

from engine import Explorer  # noqa: E402

LINEAR = {
    "stepper.Advection", "stepper.Diffusion", "stepper.AdvectionDiffusion", "stepper.Dispersion", "stepper.HyperDiffusion",
    "stepper.Wave", "stepper.generic.GeneralLinearStepper", "stepper.generic.NormalizedLinearStepper",
    "stepper.generic.DifficultyLinearStepper", "stepper.generic.DifficultyLinearStepperSimple",
}  # fmt: skip


def form(key: str) -> str:
    return key.split(":", 1)[0].split("[", 1)[0]


def cls(key: str) -> str | None:
    m = re.match(r"[\w-]+:(stepper[\w.]*)\[", key)
    return m.group(1) if m else None


def primary_size(key: str) -> bool:
    return bool(re.search(r"D=1,N=16|D=2,N=8|D=3,N=6", key)) or "N=" not in key


NONLINEAR_FORMS = ("construct", "eager")
KOLMOGOROV = ("stepper.KolmogorovFlowVorticity", "stepper.KolmogorovFlowVelocity", "stepper.generic.GeneralVorticityConvectionStepper")


def starts(*prefixes):
    return lambda k, m: k.startswith(prefixes)


def has_model(k: str, prop: str) -> bool:
    """model:<P1>,<P2>:<name>  -- a reference-model operation (audit/models.py) that serves the listed properties"""
    return k.startswith("model:") and prop in k.split(":", 2)[1].split(",")


def expected_outcome_violation(k: str, outcome, message) -> str | None:
    """Operations whose *expected* outcome is fixed by the property, whatever the history (the empty one included):
    a model operation must agree with its reference model; a rejection operation must raise ValueError."""
    if k.startswith("model:") and outcome[0] != "ok":
        if message and message.get("raised_in_harness_code"):
            return None  # API drift / harness defect: reported as a harness note, never as a violation
        return f"{outcome[1]}: {(message or {}).get('message', '')}"[:500]
    if k.startswith("reject:") and list(outcome) != ["raised", "ValueError"]:
        return "malformed call was ACCEPTED" if outcome[0] == "ok" else f"rejected with {outcome[1]} instead of ValueError"
    return None


SMALL = dict(seeds=8, groups=None, crash_points=16, switch_points=8)

PROPERTIES = {
    "C01": dict(
        title="linear steppers: exact solution whatever happened before / concurrently",
        select=lambda k, m: cls(k) in LINEAR or k == "eager:DiffultyLinearStepperSimple",
        quick=dict(seeds=12, groups=None),
        thorough=dict(seeds=400, groups=None),
    ),
    "C02": dict(
        title="ETDRK integrators of order 0-4 (directly and through every nonlinear stepper class): coefficients and steps",
        select=lambda k, m: k.startswith("etdrk") or (cls(k) is not None and cls(k) not in LINEAR and form(k) in NONLINEAR_FORMS),
        quick=dict(seeds=10, groups=16),
        thorough=dict(seeds=400, groups=None),
    ),
    "C03": dict(
        title="nonlinear functions called directly (every class, two dealiasing fractions, both resolutions) and through the nonlinear steppers",
        select=lambda k, m: k.startswith(("nonlin:", "nonlin_fun[")) or (cls(k) is not None and cls(k) not in LINEAR and form(k) == "eager"),
        quick=dict(seeds=10, groups=16),
        thorough=dict(seeds=400, groups=None),
    ),
    "C04": dict(
        title="grids, wavenumbers, FFT pairs, scaling arrays, filter masks, Fourier coefficients",
        select=starts("grid[", "grid-xy", "wavenumbers[", "fft-pair", "scaling-array", "fourier-coefficients", "low-pass-mask", "spectral[D"),
        quick=SMALL,
        thorough=dict(seeds=300, groups=None),
    ),
    "C05": dict(
        title="derivative / Laplace operators, spectral derivative, Poisson solver, incompressibility projection",
        select=starts("derivative-operator", "laplace-operator", "derivative[", "poisson[", "make-incompressible", "spectral[D"),
        quick=SMALL,
        thorough=dict(seeds=300, groups=None),
    ),
    "C06": dict(
        title="eager / jit / vmap / scan / parameter-vmap / construct-inside-jit programs of every stepper",
        select=lambda k, m: cls(k) is not None and form(k) in ("eager", "jit", "vmap", "rollout", "param-vmap", "jit-construct", "shared-call", "repeated"),
        quick=dict(seeds=12, groups=16),
        thorough=dict(seeds=500, groups=None),
    ),
    "C07": dict(
        title="gradient and JVP programs of every stepper class",
        select=lambda k, m: (cls(k) is not None and form(k) in ("grad", "jvp")) or k.startswith(("shared-fn:rollout-jvp", "shared-fn:rollout-grad", "shared-fn:rollout[")),
        quick=dict(seeds=10, groups=20),
        thorough=dict(seeds=400, groups=None),
    ),
    "C08": dict(
        title="one step of every stepper class and option twin, in 1-3 dimensions",
        select=lambda k, m: cls(k) is not None and form(k) in ("eager", "shared-call"),
        quick=dict(seeds=10, groups=16),
        thorough=dict(seeds=400, groups=None),
    ),
    "C09": dict(
        title="conservation along histories of steps: spatial mean of every conservation-form stepper (orders 1-4, N incl. multiples of 6), no work by the convective terms, constant equilibria -- invariant oracle",
        select=lambda k, m: False,
        quick=dict(seeds=8, groups=None, crash_points=12, switch_points=8),
        thorough=dict(seeds=300, groups=None),
    ),
    "C10": dict(
        title="incompressibility: Leray / make_incompressible (divergence, idempotence, agreement) and the 3D velocity steppers along histories of steps -- invariant oracle",
        select=lambda k, m: k.startswith(("make-incompressible", "nonlin:Leray")),
        quick=dict(seeds=8, groups=None, crash_points=12, switch_points=8),
        thorough=dict(seeds=300, groups=None),
    ),
    "C11": dict(
        title="no amplification: L2 norm along histories of steps of every single-field linear stepper (broadband states, three dt, 1-3 D) -- invariant oracle",
        select=lambda k, m: False,
        quick=dict(seeds=8, groups=None, crash_points=12, switch_points=8),
        thorough=dict(seeds=300, groups=None),
    ),
    "C12": dict(
        title="Kolmogorov steppers, the generic vorticity stepper with injection (several forced modes and scales per grid), ForcedStepper",
        select=lambda k, m: cls(k) in KOLMOGOROV or k.startswith(("forced", "shared-forced", "rollout-aux", "nonlin:VorticityKolmogorov", "nonlin:Projected3dKolmogorov")),
        quick=SMALL,
        thorough=dict(seeds=300, groups=None),
    ),
    "C13": dict(
        title="generic, normalized and difficulty stepper families and the conversion functions",
        select=lambda k, m: (cls(k) or "").startswith("stepper.generic.") or k.startswith(("conversions[", "generic-utils", "eager:DiffultyLinearStepperSimple")),
        quick=dict(seeds=10, groups=16),
        thorough=dict(seeds=400, groups=None),
    ),
    "C14": dict(
        title="rollout / repeat / stack_sub_trajectories / RepeatedStepper / ForcedStepper / build_ic_set",
        select=lambda k, m: form(k) in (
            "rollout", "repeated", "forced", "repeat", "rollout-aux", "stack_sub_trajectories", "build_ic_set", "build_ic_set/GRF",
            "rollout-n", "repeated-n", "shared-repeated", "shared-forced", "forced-step", "shared-fn",
        ),  # fmt: skip
        quick=dict(seeds=12, groups=20),
        thorough=dict(seeds=400, groups=None),
    ),
    "C15": dict(
        title="map_between_resolutions (up/down, odd/even, parity collisions) and FourierInterpolator",
        select=starts("resample[", "interpolate[", "interpolation[D"),
        quick=SMALL,
        thorough=dict(seeds=300, groups=None),
    ),
    "C16": dict(
        title="every exported metric, one call per operation, several bands and derivative orders",
        select=starts("metric:", "metrics[D"),
        quick=SMALL,
        thorough=dict(seeds=300, groups=None),
    ),
    "C17": dict(
        title="get_spectrum: power / amplitude x sum / average x two resolutions x 1-3 dimensions",
        select=starts("spectrum[", "spectral[D"),
        quick=SMALL,
        thorough=dict(seeds=300, groups=None),
    ),
    "C18": dict(
        title="initial-condition generators: output is a function of (options, N, key) only",
        select=lambda k, m: any(e.startswith("exponax.ic.") or e == "exponax.build_ic_set" for e in m["exports"]) and not k.startswith("reject:"),
        quick=dict(seeds=12, groups=None),
        thorough=dict(seeds=800, groups=None),
    ),
    "C19": dict(
        title="coefficients and steps follow the precision session in force, across session switches",
        select=lambda k, m: (cls(k) is not None and form(k) in ("construct", "eager", "jit-construct", "grad")) or k.startswith("etdrk"),
        quick=dict(seeds=12, groups=16),
        thorough=dict(seeds=500, groups=None),
    ),
    "C20": dict(
        title="malformed states and unsupported configurations stay rejected (same exception type) in every history",
        select=lambda k, m: k.startswith("reject:") or (cls(k) is not None and form(k) == "eager" and "twin" not in k and primary_size(k)),
        quick=dict(seeds=8, groups=None, crash_points=16, switch_points=12),
        thorough=dict(seeds=300, groups=None),
    ),
}


def load_known():
    p = os.path.join(VERIF, "known_findings.json")
    if not os.path.exists(p):
        return {"findings": [], "fixed": []}
    return json.load(open(p))


def is_known(known, prop, op):
    for f in known.get("findings", []):
        if f.get("property") == prop and re.search(f.get("operation_regex", "$^"), op):
            return f
    return None


def main():
    ap = argparse.ArgumentParser()
    ap.add_argument("--property", required=True, choices=sorted(PROPERTIES))
    ap.add_argument("--tier", choices=("quick", "thorough"), default=os.environ.get("VERIF_TIER") or "quick")
    ap.add_argument("--seed", type=int, default=int(os.environ.get("VERIF_SEED") or 0))
    ap.add_argument("--seeds", type=int, default=None)
    ap.add_argument("--repo", default="/repo")
    ap.add_argument("--jobs", type=int, default=min(16, os.cpu_count() or 4))
    ap.add_argument("--replay")
    ap.add_argument("--no-evidence", action="store_true")
    args = ap.parse_args()
    prop = args.property
    cfg = PROPERTIES[prop]
    tier_cfg = cfg[args.tier]
    t0 = time.monotonic()
    known = load_known()

    n_groups = tier_cfg["groups"]

    def select(k, m):
        return cfg["select"](k, m) or has_model(k, prop)

    ex = Explorer(
        repo=args.repo, jobs=args.jobs, seeds=args.seeds or tier_cfg["seeds"], seed_base=args.seed * 100003,
        select=select, isolate_reference=args.tier == "thorough", replay_sample=6 if args.tier == "quick" else 48,
        replay_dir=os.path.join(VERIF, "replays"), label=prop, run_wall_cap=600.0, worker_timeout=2400.0,
        min_budget=40, plans_per_worker=3 if args.tier == "quick" else 6,
        crash_points=tier_cfg.get("crash_points", 24 if args.tier == "quick" else None),
        switch_points=tier_cfg.get("switch_points", 12 if args.tier == "quick" else None),
        switch_cap=240 if args.tier == "quick" else 6000,
        focus_cap=96 if args.tier == "quick" else 400,
    )  # fmt: skip
    try:
        if args.replay and json.load(open(args.replay)).get("kind") == "exponax-dst-model-replay":
            rec = json.load(open(args.replay))
            op = rec["operation"]
            if not ex.load_catalogue() or op not in ex.all_ops:
                print("HARNESS-ERROR replay refers to an operation missing from this tree's catalogue: " + op)
                return 2
            iso, _ = ex.isolated_reference([op])
            hit = None
            for x64 in (False, True):
                if op in iso[x64]:
                    why = expected_outcome_violation(op, iso[x64][op], ex.isolated_messages[x64].get(op))
                    print(f"replay property={prop} operation={op} session={'float64' if x64 else 'float32'} history=empty outcome={iso[x64][op][0]}:{iso[x64][op][1][:24]}" + (f" -- {why}" if why else ""))
                    hit = hit or why
            if hit:
                print(f"VIOLATION property={prop} replay={args.replay}")
                return 1
            print("replay clean: the operation agrees with its reference model in a fresh interpreter")
            return 0
        if args.replay:
            r, rec = ex.replay(args.replay)
            if r is None:
                print("HARNESS-ERROR replay could not be executed: " + "; ".join(ex.errors)[:600])
                return 2
            beyond = [m for m in r["mismatches"] if m["severity"] == "beyond"]
            same = r["event_digest"] == rec["expected"]["event_digest"]
            print(f"replay property={prop} seed={rec['plan']['seed']} ops={sum(len(t) for t in rec['plan']['threads'])} event_log={'identical' if same else 'different'}")
            for m in beyond[:5]:
                print(f"   {m['op']} (x64={m['x64']}): {m['why']}")
            if beyond:
                print(f"VIOLATION property={prop} replay={args.replay}")
                return 1
            print("replay clean: every operation matches its isolated reference")
            return 0

        if not ex.load_catalogue():
            print("HARNESS-ERROR " + "; ".join(ex.errors)[:800])
            return 2
        if n_groups and len(ex.groups) > n_groups:
            # swarm over configurations too: this run's subset is drawn from VERIF_SEED
            # (groups that are not stepper configurations -- trajectory utilities, IC generators -- are always kept)
            order = sorted((g for g in ex.groups if g.startswith("stepper")), key=lambda g: hashlib.sha256(f"{args.seed}-{g}".encode()).hexdigest())
            keep = set(order[:n_groups]) | {g for g in ex.groups if not g.startswith("stepper")}
            ex.ops = {k: m for k, m in ex.ops.items() if m["group"] in keep}
            ex.keys = list(ex.ops)
            ex.groups = {g: v for g, v in ex.groups.items() if g in keep}
            ex.report["catalogue"]["operations_selected"] = len(ex.keys)
            ex.report["catalogue"]["configurations_selected"] = len(ex.groups)
        ex.build_reference()
        if not ex.reference[False] and not ex.reference[True]:
            print("HARNESS-ERROR no reference could be computed: " + "; ".join(ex.errors)[:800])
            return 2
        # operations that already raise in isolation are outside what this check judges (reported)
        skipped = sorted({k for t in ex.reference.values() for k, v in t.items() if v[0] != "ok" and not k.startswith("reject:")})
        # operations whose expected outcome the property fixes: checked first in the empty history (fresh interpreter, one operation)
        det, det_known, det_notes, det_replays = [], [], [], []
        cand = sorted({k for x, t in ex.reference.items() for k, v in t.items() if expected_outcome_violation(k, v, ex.reference_messages[x].get(k)) or (k.startswith("model:") and v[0] != "ok")})
        if cand:
            iso, _ = ex.isolated_reference(cand)
            for k in cand:
                for x64 in (False, True):
                    if k not in iso[x64]:
                        continue
                    msg = ex.isolated_messages[x64].get(k)
                    why = expected_outcome_violation(k, iso[x64][k], msg)
                    if why is None:
                        if iso[x64][k][0] != "ok" and k.startswith("model:"):
                            det_notes.append(f"{k}: raised inside harness code ({(msg or {}).get('type')}: {(msg or {}).get('message', '')[:160]}) -- API drift or harness defect, not judged")
                        continue
                    if is_known(known, prop, k):
                        det_known.append(k)
                        continue
                    os.makedirs(os.path.join(VERIF, "replays"), exist_ok=True)
                    rp = os.path.join(VERIF, "replays", f"{prop}-model-{hashlib.sha256(k.encode()).hexdigest()[:10]}.json")
                    with open(rp, "w") as f:
                        json.dump({"kind": "exponax-dst-model-replay", "property": prop, "operation": k, "session": "float64" if x64 else "float32",
                                   "history": "empty (one operation in a fresh interpreter)", "outcome": iso[x64][k], "why": why}, f, indent=1)  # fmt: skip
                    det.append((k, why, rp))
                    break
        good = ex.simulate()
        if not good:
            print("HARNESS-ERROR no simulated run completed: " + "; ".join(ex.errors)[:800])
            return 2

        bad = [r for r in good if any(m["severity"] == "beyond" for m in r["mismatches"])]
        violations, known_hits = [k for k, _, _ in det], sorted(set(det_known))
        replay_path = det[0][2] if det else None
        if bad:
            first = sorted(bad, key=lambda r: (sum(len(t) for t in r["plan"]["threads"]), r["seed"]))[0]
            plan, best, attempts, reproduced = ex.minimise(first, "beyond")
            ops_bad = sorted({m["op"] for r in bad for m in r["mismatches"] if m["severity"] == "beyond"})
            sim_replay = ex.write_replay(first, plan, best, attempts, reproduced, extra={"property": prop, "operations_beyond_rounding": ops_bad[:100]})
            replay_path = replay_path or sim_replay
            for op in ops_bad:
                if op in violations or op in known_hits:
                    continue
                (known_hits if is_known(known, prop, op) else violations).append(op)

        sim = ex.report["simulation"]
        samples = []
        for r in sorted(good, key=lambda r: -r["stats"]["line_switches"])[:3]:
            samples.append({
                "seed": r["seed"], "worker": r["variant"], "threads": [len(t) for t in r["plan"]["threads"]],
                "first_ops": [t[:3] for t in r["plan"]["threads"]], "p_line": r["plan"]["p_line"], "p_fault": r["plan"]["p_fault"],
                "p_crash": r["plan"]["p_crash"], "faults_enabled": r["plan"]["faults"], "stats": r["stats"], "event_digest": r["event_digest"][:16],
            })  # fmt: skip
        evidence = {
            "property_id": prop,
            "tier": args.tier,
            "seed": args.seed,
            "level": "exploration",
            "coverage": {
                "evaluations": sim["operations_compared_float32"] + sim["operations_compared_float64"],
                "distinct_nontrivial": sim["distinct_event_logs_with_preemption_or_fault"],
                "rule": (
                    "one evaluation = one completed public-API operation inside a simulated run, compared with its isolated reference; "
                    "a run is generated from (VERIF_SEED, run index): thread count 1-4, operation multiset (coverage slice + in-depth configurations + "
                    "duplicates), enabled fault kinds, pre-emption / fault / crash rates; runs are distinct by the SHA-256 of their scheduler event log, "
                    "and non-trivial when at least one thread switch happened at a source line inside package code or at least one fault was injected"
                ),
                "samples": samples,
                "scope": cfg["title"],
                "simulated_runs": sim["runs"],
                "runs_per_hour": sim["runs_per_hour"],
                "distinct_event_logs": sim["distinct_event_logs"],
                "operations_in_scope": sim["operations_selected"],
                "distinct_operations_exercised": sim["distinct_operations_exercised"],
                "operations_compared": {"float32_session": sim["operations_compared_float32"], "float64_session": sim["operations_compared_float64"]},
                "reach": sim["reach"],
                "faults_injected": sim["faults_injected"],
                "simulated_wall_clock_excursion_s": sim["simulated_wall_clock_excursion_s"],
                "crash_point_enumeration": sim["crash_point_enumeration"],
                "change_aware_focus": {"files_with_uncommitted_changes": ex.focus["files"], "lines": len(ex.focus["lines"])},
                "determinism": {"reruns_elsewhere": sim["determinism_reruns"], "event_log_divergences": len(sim["determinism_divergences"])},
                "bitwise_differences_within_rounding": sum(1 for r in good for m in r["mismatches"] if m["severity"] == "rounding"),
                "operations_raising_in_isolation_not_judged": skipped[:20],
                "worker_variants": sim["worker_variants"],
                "real_code": sim["real_code"],
                "stubs": sim["stubs"],
                "reference": ex.report["reference"],
                "harness_errors": ex.errors[:10],
                "ambient_seam_hits_from_package_code": ex.seam_pkg_hits,
                "replay": replay_path,
                "known_findings_matched": known_hits,
                "reference_models": {
                    "model_operations_in_scope": sum(1 for k in ex.keys if k.startswith("model:")),
                    "rejection_operations_in_scope": sum(1 for k in ex.keys if k.startswith("reject:")),
                    "evaluated_in_the_empty_history": sum(1 for x in (False, True) for k in ex.reference[x] if k.startswith(("model:", "reject:"))),
                    "evaluated_inside_simulated_histories": sum(1 for r in good for k in r.get("ops", []) if k.startswith(("model:", "reject:"))),
                    "violations_in_the_empty_history": [{"operation": k, "why": w, "replay": rp} for k, w, rp in det][:20],
                    "not_judged_raised_in_harness_code": det_notes[:10],
                    "rule": "a model operation evaluates an API program and the reference model the property names for it (naive loop, eager one-at-a-time, freshly built object, numpy exp(symbol*dt), n small steps) and raises if they differ beyond rounding; a rejection operation must raise ValueError; both are judged in a fresh interpreter (empty history) and again in every simulated history",
                },
            },
            "assumptions": [
                "oracle 1: equality with the same operation evaluated alone in a fresh interpreter (bitwise; differences within 1e-4 relative in single / 1e-9 in double precision are counted but not reported as violations)",
                "oracle 2: for model:/reject: operations, agreement with the executable reference model the property names (tolerance 2e-4 single / 1e-9 double times a per-relation factor <= 40, relative to the result's scale), in the empty history and in every simulated history",
                "inputs are fixed closed-form arrays and literal keys: the model relations decide the property for the catalogue's programs and operation sequences, not over all inputs",
                "the check decides only the history / interleaving / crash / ambient-state independence that the property implies; the property's input-quantified content is not examined by this technique family",
                "JAX, XLA:CPU, equinox and CPython are trusted; jit-compiled calls are scheduling-atomic",
            ],
            "wall_s": round(time.monotonic() - t0, 1),
            "violations": len(violations),
        }
        if not args.no_evidence:
            os.makedirs(os.path.join(VERIF, "evidence"), exist_ok=True)
            with open(os.path.join(VERIF, "evidence", f"{prop}.json"), "w") as f:
                json.dump(evidence, f, indent=1)
        print(
            f"check property={prop} tier={args.tier} seed={args.seed} ops_in_scope={sim['operations_selected']} runs={sim['runs']} "
            f"compared={evidence['coverage']['evaluations']} distinct_nontrivial_schedules={evidence['coverage']['distinct_nontrivial']} "
            f"line_switches={sim['reach']['line_switches']} faults={sim['faults_injected']} retries={sim['reach']['retries']} "
            f"determinism={sim['determinism_reruns']}/{len(sim['determinism_divergences'])}div harness_errors={len(ex.errors)} wall={evidence['wall_s']}s"
        )
        for e in ex.errors[:5]:
            print("HARNESS-NOTE " + e.splitlines()[0][:300])
        for e in det_notes[:5]:
            print("HARNESS-NOTE " + e[:300])
        for k, why, rp in det[:5]:
            print(f"   empty history: {k}: {why[:240]}")
        for op in known_hits:
            f = is_known(known, prop, op)
            print(f"KNOWN-FINDING: property={prop} {f.get('what', op)}")
        if violations:
            print(f"   {len(violations)} operation(s) beyond rounding, e.g. {violations[:3]}")
            print(f"VIOLATION property={prop} replay={replay_path}")
            return 1
        if len(good) < max(1, ex.n_seeds // 2):
            print("HARNESS-ERROR fewer than half of the simulated runs completed")
            return 2
        return 0
    finally:
        ex.cleanup()


if __name__ == "__main__":
    sys.exit(main())
